#!/usr/bin/env python3
"""add_seeded.py <prop> <src mutant dir> <name> <needs text>  -> /verif/seeded/<prop>-<name>/"""
import json, os, shutil, sys
prop, src, name, needs = sys.argv[1:5]
dst = '/verif/seeded/%s-%s' % (prop, name)
os.makedirs(dst, exist_ok=True)
for f in ('patch.diff', 'demo.py', 'notes.md'):
    if os.path.exists(os.path.join(src, f)):
        shutil.copy(os.path.join(src, f), os.path.join(dst, f))
meta = {'property': prop, 'needs_to_manifest': needs, 'origin': 'independent sub-agent given only the property text and a scratch worktree',
        'confirmed': 'tools/confirm_mutant.py: demo.py exits 0 on the clean tree, non-zero with the patch; the 77 pinned tests still pass with the patch',
        'checks_run': [], 'detected_by': []}
mp = os.path.join(dst, 'meta.json')
if os.path.exists(mp):
    old = json.load(open(mp)); meta['checks_run'] = old.get('checks_run', []); meta['detected_by'] = old.get('detected_by', [])
json.dump(meta, open(mp, 'w'), indent=1)
print(dst)
