#!/usr/bin/env python3
"""
run_seeded.py [name-prefix ...]: for every /verif/seeded/<id>/ apply patch.diff in a scratch worktree of /repo HEAD,
run the quick check of its property (plus any extra property given in meta['also_check']) against it, record the result
in meta.json and in seeded/RESULTS.md, and remove the worktree.
"""
import json, os, subprocess, sys, time, tempfile, shutil
SEEDED = '/verif/seeded'
names = sorted(d for d in os.listdir(SEEDED) if os.path.isdir(os.path.join(SEEDED, d)))
args = sys.argv[1:]
seeds = [None]
if args and args[0] == '--seeds':
    seeds = [int(x) for x in args[1].split(',')]
    args = args[2:]
if args:
    names = [n for n in names if any(n.startswith(p) for p in args)]
wt = tempfile.mkdtemp(prefix='simfim-wt-')
os.rmdir(wt)
subprocess.run(['git', '-C', '/repo', 'worktree', 'add', '-q', '--detach', wt, 'HEAD'], check=True)
scratch = tempfile.mkdtemp(prefix='simfim-seeded-')
rows = []
try:
    for n in names:
        d = os.path.join(SEEDED, n)
        meta = json.load(open(os.path.join(d, 'meta.json')))
        subprocess.run(['git', '-C', wt, 'checkout', '-q', '--', '.'], check=True)
        a = subprocess.run(['git', '-C', wt, 'apply', os.path.join(d, 'patch.diff')])
        if a.returncode != 0:
            rows.append((n, meta['property'], 'PATCH DOES NOT APPLY', 0)); continue
        meta['checks_run'], meta['detected_by'] = [], []
        for prop, seed in [(p_, s_) for p_ in [meta['property']] + meta.get('also_check', []) for s_ in seeds]:
            env = dict(os.environ, FIM_REPO=wt, VERIF_EVIDENCE_DIR=scratch, VERIF_REPLAY_DIR=scratch)
            if seed is not None:
                env['VERIF_SEED'] = str(seed)
            t0 = time.time()
            r = subprocess.run(['/verif/check', prop], env=env, stdout=subprocess.PIPE, stderr=subprocess.STDOUT)
            out = r.stdout.decode(errors='replace')
            sig = [l for l in out.splitlines() if l.startswith('signature:')][:2]
            meta['checks_run'].append({'cmd': '%sFIM_REPO=<worktree with patch> ./check %s' % ('VERIF_SEED=%d ' % seed if seed is not None else '', prop), 'exit': r.returncode,
                                       'wall_s': round(time.time() - t0, 1), 'signatures': sig})
            if r.returncode == 1 and prop not in meta['detected_by']:
                meta['detected_by'].append(prop)
            rows.append((n, prop if seed is None else '%s@%d' % (prop, seed), {0: 'MISSED', 1: 'detected', 2: 'HARNESS ERROR'}.get(r.returncode, str(r.returncode)),
                         round(time.time() - t0, 1)))
        json.dump(meta, open(os.path.join(d, 'meta.json'), 'w'), indent=1)
finally:
    subprocess.run(['git', '-C', '/repo', 'worktree', 'remove', '--force', wt])
    shutil.rmtree(scratch, ignore_errors=True)
lines = ['# Seeded changes vs. the quick tier of the checks (written by tools/run_seeded.py)', '',
         '| seeded change | check | result | wall s |', '|---|---|---|---|']
for r in rows:
    print('%-50s %-12s %-14s %6.1fs' % r)
    lines.append('| %s | %s | %s | %.1f |' % r)
if not args:
    open(os.path.join(SEEDED, 'RESULTS.md'), 'w').write('\n'.join(lines) + '\n')
