#!/usr/bin/env python3
"""confirm_mutant.py <worktree> <mutant dir>: demo passes clean, fails patched; pinned suite still passes patched."""
import json, os, subprocess, sys, tempfile, xml.etree.ElementTree as ET
wt, md = sys.argv[1], sys.argv[2]
env = dict(os.environ, PYTHONPATH=wt, PYTHONDONTWRITEBYTECODE='1')
def sh(cmd, **kw): return subprocess.run(cmd, shell=True, env=env, stdout=subprocess.PIPE, stderr=subprocess.STDOUT, **kw)
sh('git -C %s checkout -q -- fim' % wt)
r0 = sh('cd %s && timeout 300 /venv/bin/python %s/demo.py' % (wt, md))
a = sh('git -C %s apply %s/patch.diff' % (wt, md))
r1 = sh('cd %s && timeout 300 /venv/bin/python %s/demo.py' % (wt, md))
fd, path = tempfile.mkstemp(suffix='.xml'); os.close(fd)
sh('cd %s && timeout 900 /venv/bin/python -m pytest -q -p no:cacheprovider --timeout=900 --continue-on-collection-errors --junitxml=%s' % (wt, path))
passed = set()
for tc in ET.parse(path).getroot().iter('testcase'):
    if not any(ch.tag in ('failure', 'error', 'skipped') for ch in tc):
        passed.add('%s::%s' % (tc.get('classname'), tc.get('name')))
os.unlink(path)
base = json.load(open('/root/.vp/BASELINE.json'))['stable_pass']
missing = [t for t in base if t not in passed]
sh('git -C %s checkout -q -- fim' % wt)
ok = r0.returncode == 0 and a.returncode == 0 and r1.returncode != 0 and not missing
print(json.dumps({'mutant': md, 'demo_clean_rc': r0.returncode, 'apply_rc': a.returncode, 'demo_patched_rc': r1.returncode,
                  'suite_missing': missing, 'confirmed': ok}))
