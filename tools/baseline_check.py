#!/usr/bin/env python3
"""Run the repository's pinned suite and compare with /root/.vp/BASELINE.json stable_pass."""
import json, subprocess, sys, tempfile, os, xml.etree.ElementTree as ET
base = json.load(open('/root/.vp/BASELINE.json'))
fd, path = tempfile.mkstemp(suffix='.xml'); os.close(fd)
subprocess.run('cd /repo && /venv/bin/python -m pytest -ra -q -p no:cacheprovider --timeout=900 --continue-on-collection-errors --junitxml=%s' % path,
               shell=True, stdout=subprocess.DEVNULL, stderr=subprocess.DEVNULL)
passed = set()
for tc in ET.parse(path).getroot().iter('testcase'):
    if not any(ch.tag in ('failure', 'error', 'skipped') for ch in tc):
        passed.add('%s::%s' % (tc.get('classname'), tc.get('name')))
os.unlink(path)
missing = [t for t in base['stable_pass'] if t not in passed]
print('stable_pass', len(base['stable_pass']), 'passed now', len(passed), 'missing', missing)
sys.exit(1 if missing else 0)
