"""agent_prompt.py <prop> [worktree suffix] [functions already used]: prompt for a sub-agent that writes seeded changes (sees only the property text and its own worktree)"""
import json,sys
pid=sys.argv[1]; suffix=sys.argv[2] if len(sys.argv)>2 else ''; avoid=sys.argv[3] if len(sys.argv)>3 else ''
props={json.loads(l)['id']:json.loads(l) for l in open('/verif/properties.jsonl')}
p=props[pid]
wt='/tmp/wt/%s%s'%(pid,suffix)
av=('Earlier seeded changes for this property already touched: %s. Choose DIFFERENT functions / mechanisms than those (other operations, the other backend, other element kinds, other code paths the property is anchored in).\n\n' % avoid) if avoid else ''
print(f"""You are helping test a verification effort by producing realistic *seeded defects* ("mutants") for the Python library fabric-testbed/InformationModel (package `fim`). You have your own scratch git worktree of the library at {wt} (work ONLY there; never touch /repo or /verif, and do not read anything under /verif).

The semantic property to break:

  Title: {p['title']}
  Statement: {p['statement']}
  Quantified over: {p['quantifier']['text']}
  Code it is anchored in: {', '.join(p['anchors']['files'])}

{av}Task: produce TWO different, independent changes to the library source (under {wt}/fim) each of which breaks this property, while the library still imports and the existing test suite still passes exactly as before. Aim for subtle, realistic bugs a maintainer could plausibly introduce (an off-by-one, a wrong variable, a dropped condition, a missing copy, a reordered statement, a lock released on the wrong path, a forgotten case) — NOT ones that ordinary use would expose at once. Each change should need something specific to manifest: a particular multi-step sequence of operations, an unusual-but-legal input, a particular interleaving or fault/exception at a particular point, or two cooperating sites that each look fine alone. Make the two mutants differ in kind (different function / different mechanism).

How to run things:
  - Always run python as:  cd {wt} && PYTHONPATH={wt} /venv/bin/python ...   (check `import fim; print(fim.__file__)` points into {wt}).
  - Existing suite:  cd {wt} && PYTHONPATH={wt} /venv/bin/python -m pytest -q -p no:cacheprovider --timeout=900 --continue-on-collection-errors 2>&1 | tail -60
    On the unmodified tree 77 tests pass and 36 fail (the failing ones need a Neo4j server or have stale expectations: all of test/modify_test.py, test/slice_topology_test.py, test/zz_neo4j_pg_test.py and test/sliver_test.py::TestSlivers::testLocation). With your change the SAME 77 tests must still pass (run the suite on the unmodified tree first to record the list of passing tests, e.g. with `-rA` or `--junitxml`, then compare).
  - No network access. Do not install anything.

For each mutant k in (1, 2) deliver, in the directory {wt}/mutants/m<k>/ :
  - patch.diff : output of `git diff` for ONLY that mutant's source change (relative to the worktree HEAD; apply-able with `git apply` from the repo root; must touch only files under fim/).
  - demo.py : a small standalone program (no pytest needed) that exits 0 on the unmodified tree and exits non-zero (assertion failure) with the patch applied, demonstrating the property violation through the library's public API. It must be deterministic. It is run as `PYTHONPATH=<tree> /venv/bin/python demo.py`.
  - notes.md : 5-10 lines: what was changed, why it breaks the property, and exactly what is needed for it to manifest (sequence / input / interleaving / fault), and confirmation of the test-suite result with the patch applied (number passed/failed).
Do NOT use `git stash` (it is shared between scratch worktrees); use `git diff > file`, `git checkout -- fim`, `git apply file`.
Before finishing: verify for each mutant, starting from a clean tree (`git checkout -- fim`), that (a) demo.py passes without the patch, (b) after `git apply mutants/m<k>/patch.diff` demo.py fails, (c) the same 77 tests pass with the patch, then `git checkout -- fim` again so the worktree's fim/ is clean at the end (leave only the mutants/ directory as untracked content).

Report back briefly: for each mutant one paragraph (what, where, what it needs to manifest) and the paths of the files.""")
