#!/bin/bash
# usage: try_mutant.sh <worktree> <patch.diff> <prop> [runs]   -- applies patch in the scratch worktree, runs the check against it, reverts
wt=$1; patch=$2; prop=$3; runs=${4:-}
git -C $wt checkout -q -- fim && git -C $wt apply $patch || exit 9
export VERIF_EVIDENCE_DIR=/tmp/p/ev VERIF_REPLAY_DIR=/tmp/p/replays
if [ -n "$runs" ]; then FIM_REPO=$wt /verif/check $prop --runs $runs; else FIM_REPO=$wt /verif/check $prop; fi
rc=$?
git -C $wt checkout -q -- fim
echo "exit=$rc"
