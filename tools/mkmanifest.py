import json
NA = [
 ("C03", "Encode/decode/update of the attribute value classes are pure functions of one value or text; no schedule, clock, I/O, shared state or second party enters, so there is nothing for a simulator to vary (input-space search is a different technique family)."),
 ("C12", "Delegations/Pools encoding and regrouping is pure algebra over one delegation set; rejection rules are input validation. No interleaving, fault or history dependence."),
 ("C15", "Capacities arithmetic and comparison are field-wise functions of two or three immutable-by-contract values; nothing to schedule or fault."),
 ("C16", "Acceptance of a label/tag/name/blob is a membership question about one string per entry point; it needs a grammar-based near-miss generator, not a scheduler or fault injector."),
 ("C18", "Instance sizing is a function of three integers over a fixed catalogue (decided by exhaustive enumeration, i.e. a different family); component generation is a function of one catalogue entry."),
]
CHECKS = {
 "C01": ("exploration", "Seeded simulated histories in the store world: graphs built by interleaved client operations are serialized from both in-memory stores, parsed independently, re-imported through all four entry points (same/other store, id kept/reassigned) and compared with a reference model; a separate configuration injects file-system faults (ENOSPC, EIO, short write, missing file) with a relaxed never-a-different-graph oracle. Sampling, not proof.", "4/C01",
         "Values restricted to str/int with one type per property name; CR excluded; lxml/json parsers and PGModel are trusted.", "deterministic simulation (seeded store-world histories + file-fault injection) against a reference model"),
 "C04": ("exploration", "Seeded interleavings of 2-4 clients' operations on both shared singletons; after every step every graph the operation did not address is compared with its pre-step snapshot, plus internal-identity invariants and clone equality. Sampling of histories, not proof.", "4/C04",
         "White-box snapshot of storage.graphs is trusted; merge_nodes/GraphID rewrite excluded per the property.", "deterministic simulation: seeded multi-client operation histories with per-step frame-condition oracle"),
 "C05": ("exploration", "Every operation of a seeded history is executed in lock step on the shared-store backend, the disjoint backend and an executable reference model (PGModel); outcome class, returned value and full store state are compared after every step. Sampling of histories, not exhaustive to a depth.", "4/C05",
         "PGModel encodes the docstrings; rules the docs leave open are pinned to the behaviour both backends share and listed in the evidence.", "deterministic simulation: three-way lock-step refinement against an executable reference model"),
 "C06": ("exploration", "Neighbour/path queries are issued as read operations inside seeded store-world histories (several graphs in the store, mixed relations) and compared with an oracle computed from the model's edge list without networkx. Weakest kind of simulation use: the property is a function of the store state; the simulation contributes state diversity only.", "4/C06",
         "'loop-free' is the library's own notion (induced sub-graph of the path acyclic).", "deterministic simulation (state diversity only) + independent query oracle"),
 "C20": ("exploration", "Part A: an observing lock replaces the lock of both stores in every store-world run (acquire/release balance, no release while unlocked, not held on exit, after every operation incl. naturally failing ones), plus enumeration of every source-line crash point of each store operation with an injected exception. Part B: 2-3 real threads x 2-4 store operations, parked and released one at a time by a seeded scheduler (random and PCT) with pre-emption at every source line of the store modules and every lock operation; after join every graph must hold exactly the nodes (with their properties) and edges its owner added, counters beyond all ids, no deadlock. Seeded search, not systematic enumeration up to a pre-emption bound.", "4/C20",
         "Pre-emption granularity is a source line of the three store modules; injected exceptions are MemoryError at line events (not at lock calls / try: / finally: / return lines).", "deterministic simulation: baton-passing real threads under a seeded line-level scheduler + crash-point enumeration with exception injection"),
 "C07": ("exploration", "Seeded histories of the documented topology-building calls (both flavours, valid and invalid arguments); after every call the model is read white-box from the store and checked against the published rules (pinned copy), the containment structure, name scopes and the read-only views. Sampling of histories, not proof.", "4/C07",
         "Rule vocabularies are pinned in the checker (an edit of the JSON file shows up); cardinality rules 11/12 judged only after a successful validate(); peering links are not removed by hand.", "deterministic simulation: seeded API-call histories with invariant oracles after every step"),
 "C08": ("exploration", "Every removal/disconnect/unpeer/prune issued in seeded histories is compared with an independent prediction (owned closure + peering artefacts) so that both 'left behind' and 'collateral damage' are visible, plus the handle clause. Sampling of histories.", "4/C08",
         "The owned-closure rules are transcribed from the docstrings (Appendix E of DESIGN.md).", "deterministic simulation: per-step refinement against a reference transition (frame condition)"),
 "C09": ("fault_enumeration", "At sampled states of seeded histories the whole catalogue of failing-call templates (template x position of the bad argument) is executed call by call; any call that raises must leave the model identical. The fault space per state is enumerated; the states are sampled.", "4/C09",
         "A template that is unexpectedly accepted is only counted; no listed property promises rejection.", "deterministic simulation + per-state enumeration of a failing-call catalogue"),
 "C02": ("exploration", "Set/get/unset over the full setter vocabulary and deep-sliver reconstruction are issued as operations inside seeded topology histories. Weakest kind of simulation use: the property is a function of its input; the simulation contributes state diversity (containment shapes, two graphs per store) only.", "4/C02",
         "Value generators cover the names listed in the evidence; zero/false/empty values belong to C03.", "deterministic simulation (state diversity only) + field-wise round-trip oracle"),
 "C10": ("exploration", "validate() is a stateful operation of seeded experiment-topology histories (it records sites) interleaved with edits; its outcome is compared two-sidedly with a reference over constraint tables pinned in the checker, plus the connect-time guard-rail. The property itself is a function of the topology: the simulation contributes state diversity and the interleaving with the side effect.", "4/C10",
         "Pinned copies of ServiceConstraints/NodeConstraints: a silent edit of the tables shows up as a disagreement.", "deterministic simulation (state diversity) + two-sided reference oracle over pinned tables"),
 "C11": ("exploration", "Attribute and accounting collection are operations inside seeded slice histories; expectations are computed from an order-free abstract state so two histories reaching the same slice must give the same attributes; topology vs serialized-model collection compared. Sampling.", "4/C11",
         "The library's own definition of 'in slice' is pinned and stated.", "deterministic simulation: history/order variation + order-free tally oracle"),
 "C17": ("exploration", "Two versions of an element are two checkpoints of one seeded edit history; the sliver diff in both directions is compared with a subtraction of the two abstract states. Weakest kind: a function of two slivers; simulation contributes the edit histories.", "4/C17",
         "Matching by name; SUB_INTERFACES judged where the library judges it.", "deterministic simulation (checkpointed histories) + reference diff"),
 "C13": ("exploration", "Partitioning is the first stage of a simulated federation (aggregate managers -> brokers): every partition any run produces is checked against an independent reading of the annotated aggregate model. The property is a function of that model; the simulation contributes generated models and the workflow around it.", "4/C13",
         "Aggregate models come from a seeded raw-graph generator, not from real site advertisements.", "deterministic simulation (federation world) + per-partition reference oracle"),
 "C14": ("exploration", "Seeded federation runs: the scheduler decides delivery order, duplication, loss and re-send of advertisements, aggregates leaving and returning, snapshots/rollbacks, and at which backend call of a merge an exception is injected; after every event the combined model must equal an order-free union of what is currently merged, with bounded liveness once faults stop. Sampling of schedules and fault sequences.", "4/C14",
         "merge/unmerge run on the in-memory shared store through the abstract interface (as the property says); real Neo4j/APOC semantics are not exercised.", "deterministic simulation with fault injection: message reordering/duplication/loss, crash inside merge + rollback, membership changes"),
}
checks = []
for pid,(cat,text,ref,note,tech) in sorted(CHECKS.items()):
    checks.append({"property_id": pid, "quick_cmd": "./check %s --tier quick" % pid, "thorough_cmd": "./check %s --tier thorough" % pid,
                   "evidence_file": "evidence/%s.json" % pid, "replay_cmd_template": "./check %s --replay {path}" % pid,
                   "engine": "simfim", "level_claimed": {"category": cat, "text": text, "design_ref": ref}, "level_note": note, "technique": tech})
claimed = set(CHECKS)
allp = ["C%02d" % i for i in range(1,21)]
na = [{"property_id": p, "reason": r} for p,r in NA]
for p in allp:
    if p not in claimed and p not in dict(NA):
        na.append({"property_id": p, "reason": "not yet claimed: the simulated world that decides it (see DESIGN.md section 2) is under construction; no check is registered until it is sound"})
m = {"version": 1,
     "setup_cmd": "/venv/bin/python -c \"import sys; sys.path.insert(0,'/repo'); import fim, networkx, networkx_query, lxml; print('ok', fim.__file__)\"",
     "hooks": {"guard": "FIM_VERIF", "enable": "no hooks needed: every seam is a class attribute or module global rebound inside the simulator process; checks import fim from /repo's working tree",
               "baseline_off_cmd": "cd /repo && /venv/bin/python -m pytest -ra -q -p no:cacheprovider --timeout=900 --continue-on-collection-errors",
               "source_commits": [], "add_only": True},
     "engines": [{"name": "simfim", "path": "simfim/", "serves_properties": sorted(claimed), "kind_free_text": "deterministic simulator: seeded PRNG streams, pinned PYTHONHASHSEED per worker, recorded step lists, delta-debugging minimiser, replay files, reference models"}],
     "checks": checks, "not_applicable": sorted(na, key=lambda x: x["property_id"]),
     "notes": "Exit codes of ./check: 0 held, 1 violation (VIOLATION line with replay file), 2 harness error. known_findings.json lists open findings (printed as KNOWN-FINDING) and fixed ones."}
json.dump(m, open('/verif/MANIFEST.json','w'), indent=1)
