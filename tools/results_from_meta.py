#!/usr/bin/env python3
"""Rewrite seeded/RESULTS.md from the last recorded runs in every seeded/<id>/meta.json (no check is executed)."""
import json, os
S = '/verif/seeded'
rows, n_det, n_all, never = [], 0, 0, []
for d in sorted(os.listdir(S)):
    mp = os.path.join(S, d, 'meta.json')
    if not os.path.exists(mp):
        continue
    m = json.load(open(mp))
    runs = m.get('checks_run', [])
    for r in runs:
        cmd = r['cmd'].replace('FIM_REPO=<worktree with patch> ', '')
        res = {0: 'MISSED', 1: 'detected', 2: 'HARNESS ERROR'}.get(r['exit'], str(r['exit']))
        rows.append('| %s | %s | %s | %.1f |' % (d, cmd, res, r.get('wall_s', 0)))
    n_all += 1
    if m.get('detected_by'):
        n_det += 1
    else:
        never.append('%s%s' % (d, (' - ' + m['note']) if m.get('note') else (' (no run recorded)' if not runs else '')))
lines = ['# Seeded changes vs. the quick tier of the checks',
         '',
         'Assembled by tools/results_from_meta.py from the last run recorded in each `seeded/<id>/meta.json` '
         '(`tools/run_seeded.py` writes those; the runs were made at different times of the build, each against the '
         'checks as they were then or later). %d seeded changes, %d detected by their own or an `also_check` property '
         'in the last recorded run.' % (n_all, n_det), '']
if never:
    lines += ['Not detected in the last recorded run:', ''] + ['* ' + x for x in never] + ['']
lines += ['| seeded change | command | result | wall s |', '|---|---|---|---|'] + rows
open(os.path.join(S, 'RESULTS.md'), 'w').write('\n'.join(lines) + '\n')
print(n_all, n_det, len(never))
for x in never:
    print('  ', x[:160])
