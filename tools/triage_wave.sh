#!/bin/bash
# usage: triage_wave.sh <worktree suffix> <dest dir> <prop> [<prop>...]
# copies /tmp/wt/<prop><suffix>/mutants to <dest>/<prop>, runs each mutant against its property's quick check
sfx=$1; dest=$2; shift 2
mkdir -p $dest
for p in "$@"; do
  rm -rf $dest/$p; cp -r /tmp/wt/${p}${sfx}/mutants $dest/$p || continue
  for m in m1 m2; do
    echo "### $p $m: $(head -1 $dest/$p/$m/notes.md | cut -c1-150)"
    /verif/tools/try_mutant.sh /tmp/wt/${p}${sfx} $dest/$p/$m/patch.diff $p 2>&1 | grep -E "^VIOLATION|^signature|HARNESS|exit=" | cut -c1-260 | head -4
  done
done
