"""
Self-tests of the machinery:  ./check selftest determinism [N]
Every world: N run seeds, each executed in TWO fresh interpreters under the
pinned hash seed, once more with a different caller-side PYTHONHASHSEED (which
the runner must override), and once with another worker layout; the event-log
digests must be pairwise identical.
"""
import json
import os
import subprocess
import sys
import time

from . import kernel
from .kernel import derive

PY = sys.executable
CHECK = os.path.join(kernel.VERIF_DIR, 'check')
WORLDS = [('w1:W1World', 'C05'), ('w1:W1World', 'C01'), ('w1t:W1TWorld', 'C20'), ('w2:W2World', 'C08'),
          ('w2:W2World', 'C11'), ('w3:W3World', 'C14'), ('w4:W4World', 'C19')]


def digests_main(arg):
    """worker: print {seed: digest} for the given world/prop/seeds"""
    job = json.loads(arg)
    from .driver import setup_repo_import, load_registry, world_class
    setup_repo_import()
    load_registry()
    wcls = world_class(job['world'])
    out = {}
    for seed in job['seeds']:
        r = kernel.run_world(wcls, seed, job['prop'], 'quick')
        out[str(seed)] = r.digest + ('|V:%s' % r.violation.oracle if r.violation else '')
    print('DIGESTS ' + json.dumps(out))
    return 0


def run(world, prop, seeds, hashseed, caller_hashseed=None):
    env = dict(os.environ)
    env['PYTHONHASHSEED'] = str(hashseed)
    if caller_hashseed is not None:
        env['SIMFIM_CALLER_HASHSEED'] = str(caller_hashseed)
    p = subprocess.run([PY, '-B', CHECK, '--digests', json.dumps({'world': world, 'prop': prop, 'seeds': seeds})],
                       env=env, stdout=subprocess.PIPE, stderr=subprocess.PIPE, timeout=1800)
    for line in p.stdout.decode().splitlines():
        if line.startswith('DIGESTS '):
            return json.loads(line[8:])
    raise RuntimeError('digest worker failed: %s' % p.stderr.decode()[-1500:])


def main(argv):
    n = int(argv[1]) if len(argv) > 1 else 60
    t0 = time.time()
    bad = 0
    total = 0
    for world, prop in WORLDS:
        seeds = [derive(4242, world, prop, i) % (1 << 53) for i in range(n)]
        hs = derive(4242, 'hs', world) % 4294967296
        a = run(world, prop, seeds, hs)
        b = run(world, prop, seeds, hs)
        # other split of the same seeds over two processes (worker layout must not matter)
        c = run(world, prop, seeds[: n // 2], hs)
        c.update(run(world, prop, seeds[n // 2:], hs))
        diff = [s for s in a if a[s] != b.get(s) or a[s] != c.get(s)]
        total += len(a)
        bad += len(diff)
        # a different hash seed is a different (but equally repeatable) execution: count how many digests move
        d = run(world, prop, seeds, (hs + 1) % 4294967296)
        moved = sum(1 for s in a if a[s] != d.get(s))
        print('%-14s %-4s seeds=%d  nondeterministic=%d  digests that change with the hash seed=%d' %
              (world, prop, len(a), len(diff), moved))
        for s in diff[:3]:
            print('   seed %s: %s / %s / %s' % (s, a[s][:16], b.get(s, '?')[:16], c.get(s, '?')[:16]))
    print('determinism self-test: %d runs x3, %d non-deterministic, %.0fs' % (total, bad, time.time() - t0))
    return 0 if bad == 0 else 2
