"""Adversarial value generators shared by the worlds (pure functions of the PRNG passed in)."""

STR_ATOMS = ['', ' ', 'a', 'b c', ' lead', 'trail ', 'a\nb', '"', "'", 'q"uo\'te', '<&>', '&amp;', ']]>',
             'ünï', '中文', 'None', 'true', 'false', '{"a": 1}', '[1, 2]', '{bad json',
             '\\', '\t', '$x', '{x}', '0', '-1', 'null', '`', 'MATCH (n) DETACH DELETE n', "\\'", '}}', '{{']
INTS = [0, 1, -1, 7, 2 ** 31, 10 ** 12, -(2 ** 33)]


def adv_str(rng, maxlen=40):
    k = rng.random()
    if k < 0.55:
        s = rng.choice(STR_ATOMS)
    elif k < 0.85:
        s = rng.choice(STR_ATOMS) + rng.choice(STR_ATOMS)
    else:
        s = ''.join(rng.choice(STR_ATOMS) for _ in range(rng.randint(2, 4)))
    return s[:maxlen]


def adv_int(rng):
    return rng.choice(INTS) if rng.random() < 0.6 else rng.randint(-1000, 1000)


def wchoice(rng, weights):
    """weights: dict name -> weight (iteration order of the dict literal is deterministic)"""
    tot = 0.0
    for w in weights.values():
        tot += w
    x = rng.random() * tot
    acc = 0.0
    last = None
    for k, w in weights.items():
        if w <= 0:
            continue
        acc += w
        last = k
        if x < acc:
            return k
    return last
