"""
W3 — the federation world (C13, C14; C01 as the wire format).  2-4 aggregate
managers each hold an aggregate resource model with delegations; they partition
it (generate_adms), serialize each partition and send it; brokers import what
arrives, snapshot, merge, roll back on an injected failure, unmerge aggregates
that go away.  The scheduler owns the network (order, duplication, loss and
re-send) and the fault plan (exception at the k-th backend call inside a merge).

merge_adm / unmerge_adm exist only on the Neo4j class but are written against
the abstract graph interface; they are bound, unchanged, onto a
NetworkXPropertyGraph subclass (the property says: "executed through the
abstract graph interface on the in-memory shared store").
"""
import json

from .kernel import World, Violation, SkipStep, HarnessError, canon, h8
from .values import wchoice
from .struct import graph_state, state_diff, Struct, jprop, CLASS, NODE_ID, NAME, TYPE
from . import seams

DEL_PROPS = ('LabelDelegations', 'CapacityDelegations')
DEL_IDS = ['primary', 'secondary', 'tertiary']


class InjectedCrash(Exception):
    pass


def make_cbm_class():
    import fim.graph.resources.neo4j_cbm as ncbm
    from fim.graph.networkx_property_graph import NetworkXPropertyGraph
    from fim.graph.resources.abc_cbm import ABCCBMPropertyGraph
    from fim.graph.resources.networkx_adm import NetworkXADMGraph
    ncbm.Neo4jADMGraph = NetworkXADMGraph      # the temporary ADM clone is an in-memory graph here

    class SimCBM(NetworkXPropertyGraph, ABCCBMPropertyGraph):
        fault = None      # {'left': k} -> raise at the k-th intercepted backend call
        calls = 0
        merge_adm = ncbm.Neo4jCBMGraph.merge_adm
        unmerge_adm = ncbm.Neo4jCBMGraph.unmerge_adm
        _update_node_delegations = ncbm.Neo4jCBMGraph._update_node_delegations
        BQM_MERGED_FIELDS = ncbm.Neo4jCBMGraph.BQM_MERGED_FIELDS

        def _tick(self):
            SimCBM.calls += 1
            f = SimCBM.fault
            if f is not None:
                f['left'] -= 1
                if f['left'] <= 0:
                    SimCBM.fault = None
                    raise InjectedCrash('injected failure at backend call %d of the merge' % SimCBM.calls)

        # the backend calls merge_adm makes on the combined model
        def merge_nodes(self, *a, **kw):
            self._tick()
            return super().merge_nodes(*a, **kw)

        def update_node_property(self, **kw):
            self._tick()
            return super().update_node_property(**kw)

        def update_node_properties(self, **kw):
            self._tick()
            return super().update_node_properties(**kw)

        def find_matching_nodes(self, **kw):
            self._tick()
            return super().find_matching_nodes(**kw)

        def get_bqm(self, **kw):
            raise NotImplementedError

        def get_delegations(self, **kw):
            raise NotImplementedError

        def get_matching_nodes_with_components(self, **kw):
            raise NotImplementedError

        def get_intersite_links(self):
            raise NotImplementedError

        def get_sites(self):
            raise NotImplementedError

        def get_disconnected_sites(self):
            raise NotImplementedError

        def get_connected_sites(self):
            raise NotImplementedError

        def get_facility_ports(self):
            raise NotImplementedError
    return SimCBM


# ------------------------------------------------------------------------------------------ ARM generator
def caps(rng):
    return json.dumps({'core': rng.choice([8, 32, 64]), 'ram': rng.choice([64, 256]), 'disk': rng.choice([500, 4000])})


def gen_delegations(rng, dels, kind, pools, node, allow_pool=True):
    """JSON text of a delegations property for a node: entries for a non-empty subset of the delegation ids"""
    out = {}
    for d in dels:
        if rng.random() < 0.7 or not out:
            fmt = rng.random()
            detail_key = 'labels' if kind == 'LabelDelegations' else 'capacities'
            detail = {'vlan_range': '%d-%d' % (rng.randint(100, 200), rng.randint(300, 400))} if detail_key == 'labels' else \
                {'core': rng.choice([4, 16]), 'ram': rng.choice([32, 128])}
            pk = (d, kind)
            if allow_pool and fmt < 0.2 and pk not in pools:
                pools[pk] = 'pool-%s-%d' % (d, len(pools))
                out[d] = {'pool_id': pools[pk], detail_key: detail}
            elif allow_pool and fmt < 0.4 and pk in pools:
                out[d] = {'pool': pools[pk]}
            else:
                out[d] = {'pool_id': '_', detail_key: detail}
    return json.dumps(out)


def gen_am(rng, am, site, dels, is_net, sites, disagree):
    """description of one aggregate model: nodes [(id, class, props)], edges [(a, rel, b)]"""
    nodes, edges = [], []
    pools = {}

    def add(nid, cls, typ, name, props=None, delegated=False, stitch=False):
        p = {'Name': name, 'Type': typ, 'StitchNode': 'true' if stitch else 'false'}
        if props:
            p.update(props)
        if delegated:
            k = rng.random()
            kinds = ['LabelDelegations'] if k < 0.25 else ['CapacityDelegations'] if k < 0.5 else \
                list(DEL_PROPS) if k < 0.85 else []
            for kind in kinds:
                p[kind] = gen_delegations(rng, dels, kind, pools, nid)
        nodes.append([nid, cls, p])

    def stitch_props(sname):
        # what both sides write about a shared element; in the 'disagree' configuration one property differs
        p = {'Capacities': json.dumps({'bw': 100})}
        if disagree:
            p['Details'] = 'as seen by %s' % am
        return p
    if not is_net:
        sw = '%s-sw' % site
        add(sw, 'NetworkNode', 'Switch', sw, {'Site': site}, delegated=rng.random() < 0.5)
        add(sw + '-ns', 'NetworkService', 'MPLS', sw + '-ns', delegated=rng.random() < 0.3)
        edges.append([sw, 'has', sw + '-ns'])
        nports = 0
        for w_ in range(rng.randint(1, 3)):
            wn = '%s-w%d' % (site, w_)
            add(wn, 'NetworkNode', 'Server', wn, {'Site': site, 'Capacities': caps(rng)}, delegated=True)
            for c in range(rng.randint(0, 2)):
                cn = '%s-c%d' % (wn, c)
                nic = rng.random() < 0.6
                add(cn, 'Component', 'SmartNIC' if nic else 'GPU', cn, {'Model': 'ConnectX-6' if nic else 'RTX6000'},
                    delegated=rng.random() < 0.7)
                edges.append([wn, 'has', cn])
                if nic:
                    add(cn + '-ns', 'NetworkService', 'OVS', cn + '-ns')
                    edges.append([cn, 'has', cn + '-ns'])
                    for pi in range(rng.randint(1, 2)):
                        pn = '%s-p%d' % (cn, pi)
                        add(pn, 'ConnectionPoint', 'DedicatedPort', pn, {'Capacities': json.dumps({'bw': 100})},
                            delegated=rng.random() < 0.6)
                        edges.append([cn + '-ns', 'connects', pn])
                        # wire to a switch port
                        sp = '%s-p%d' % (sw, nports)
                        nports += 1
                        add(sp, 'ConnectionPoint', 'TrunkPort', sp, delegated=rng.random() < 0.4)
                        edges.append([sw + '-ns', 'connects', sp])
                        ln = '%s-l%d' % (site, nports)
                        add(ln, 'Link', 'Patch', ln, delegated=rng.random() < 0.2)
                        edges.append([ln, 'connects', pn])
                        edges.append([ln, 'connects', sp])
        if rng.random() < 0.4:
            fn = '%s-fac' % site
            add(fn, 'NetworkNode', 'Facility', fn, {'Site': site}, delegated=rng.random() < 0.5)
            add(fn + '-ns', 'NetworkService', 'VLAN', fn + '-ns')
            edges.append([fn, 'has', fn + '-ns'])
            add(fn + '-int', 'ConnectionPoint', 'FacilityPort', fn + '-int', delegated=True)
            edges.append([fn + '-ns', 'connects', fn + '-int'])
        # uplink towards the network aggregate: own port (may be delegated) - shared link - shared far port
        up = '%s-up' % sw
        add(up, 'ConnectionPoint', 'TrunkPort', up, stitch_props(up), delegated=True, stitch=True)
        edges.append([sw + '-ns', 'connects', up])
        add('stitch-%s-link' % site, 'Link', 'L2Path', 'stitch-%s-link' % site, stitch_props('l'), stitch=True)
        add('net-%s-p' % site, 'ConnectionPoint', 'TrunkPort', 'net-%s-p' % site, stitch_props('p'), stitch=True)
        edges.append(['stitch-%s-link' % site, 'connects', up])
        edges.append(['stitch-%s-link' % site, 'connects', 'net-%s-p' % site])
    else:
        prev = None
        for s in sites:
            sw = 'net-%s-sw' % s
            add(sw, 'NetworkNode', 'Switch', sw, {'Site': s}, delegated=rng.random() < 0.6)
            add(sw + '-ns', 'NetworkService', 'MPLS', sw + '-ns')
            edges.append([sw, 'has', sw + '-ns'])
            # own port facing site s (delegated by the network aggregate), shared link, shared site-side port
            add('net-%s-p' % s, 'ConnectionPoint', 'TrunkPort', 'net-%s-p' % s, stitch_props('p'), delegated=True,
                stitch=True)
            edges.append([sw + '-ns', 'connects', 'net-%s-p' % s])
            add('stitch-%s-link' % s, 'Link', 'L2Path', 'stitch-%s-link' % s, stitch_props('l'), stitch=True)
            add('%s-sw-up' % s, 'ConnectionPoint', 'TrunkPort', '%s-sw-up' % s, stitch_props('u'), stitch=True)
            edges.append(['stitch-%s-link' % s, 'connects', 'net-%s-p' % s])
            edges.append(['stitch-%s-link' % s, 'connects', '%s-sw-up' % s])
            if prev is not None:
                a, b = 'net-%s-to-%s' % (prev, s), 'net-%s-to-%s' % (s, prev)
                add(a, 'ConnectionPoint', 'TrunkPort', a, delegated=rng.random() < 0.7)
                add(b, 'ConnectionPoint', 'TrunkPort', b, delegated=rng.random() < 0.7)
                edges.append(['net-%s-sw-ns' % prev, 'connects', a])
                edges.append([sw + '-ns', 'connects', b])
                ln = 'net-link-%s-%s' % (prev, s)
                add(ln, 'Link', 'L2Path', ln, delegated=rng.random() < 0.5)
                edges.append([ln, 'connects', a])
                edges.append([ln, 'connects', b])
            prev = s
    return {'am': am, 'nodes': nodes, 'edges': edges}


class W3World(World):
    name = 'W3'

    @classmethod
    def draw_config(cls, rng, prop, tier):
        return {
            'prop': prop,
            'n_sites': rng.randint(1, 3),
            'n_dels': rng.choice([1, 1, 2, 3]),
            'steps': rng.randint(4, 10) if rng.random() < 0.3 else rng.randint(10, 28),
            'disagree': rng.random() < 0.25,   # forced off below when open findings are avoided
            'p_crash': rng.choice([0.0, 0.15, 0.35]),
            'avoid_known': rng.random() < 0.8,
            # one aggregate names its delegation models after the delegation ids themselves (graph id == delegation
            # id; legal: the ids only have to be distinct among the models a broker combines)
            'named_after_delegation': rng.random() < 0.15,
            # the aggregate-model object is kept between partitionings (as an aggregate manager would keep it)
            'retain_arm': rng.random() < 0.5,
            # generate_adms is given graph ids for only some of the delegation ids
            'partial_guids': rng.random() < 0.2,
            'mix': {'send': 6, 'deliver': 10, 'duplicate': 2, 'drop': 2, 'resend': 3, 'offline': 3, 'comeback': 3,
                    'snapshot': 2, 'rollback': 2, 'partition': 2, 'rewrite': 1, 'grow': 1.5, 'open_importer': 0.6},
            'step_cap': 80,
        }

    def __init__(self, seed, cfg, log, stats, streams):
        self.seed, self.cfg, self.log, self.stats, self.streams = seed, cfg, log, stats, streams
        self.prop = cfg['prop']
        self.pending = []
        self.state_hashes = set()
        self.steps_done = 0
        self.mutations = 0
        self.faults = 0
        self.avoid = seams.avoid_set() if cfg.get('avoid_known') else set()
        if 'disagreeing_adms' in self.avoid:
            cfg['disagree'] = False
        self.seam = seams.Seams(streams, stats)
        self.seam.install_uuid()
        from fim.graph.networkx_property_graph import NetworkXGraphStorage, NetworkXGraphImporter
        NetworkXGraphStorage.storage_instance = None
        self.imp = NetworkXGraphImporter()
        self.CBM = make_cbm_class()
        self.CBM.fault = None
        self.ams = {}          # am -> {'desc':..., 'arm_id':..., 'adm_version': n, 'online': bool}
        self.built = False
        self.dels = DEL_IDS[:cfg['n_dels']]
        self.brokers = {}      # del id -> {'cbm': SimCBM, 'merged': {adm_id: state}, 'snaps': [(gid, merged copy, state)]}
        self.net = []          # in-flight messages: {'am', 'del', 'adm_id', 'text', 'state'}
        self.dropped = []
        self.msgc = 0

    def close(self):
        self.seam.uninstall()
        self.CBM.fault = None
        from fim.graph.networkx_property_graph import NetworkXGraphStorage
        NetworkXGraphStorage.storage_instance = None

    def is_nontrivial(self):
        if self.prop == 'C14' and self.cfg['p_crash'] > 0:
            return self.mutations > 0
        return self.mutations > 0

    def flag(self, prop, oracle, sig, detail):
        self.pending.append(Violation(prop, oracle, dict(sig), detail))

    def end_step(self):
        if self.pending:
            own = [v for v in self.pending if v.prop == self.prop]
            v = own[0] if own else self.pending[0]
            self.pending = []
            raise v

    # ------------------------------------------------------------------ generation
    def gen_step(self, rng):
        if not self.built:
            sites = ['S%d' % i for i in range(self.cfg['n_sites'])]
            ams = []
            for s in sites:
                ams.append(gen_am(rng, 'am-' + s, s, self.dels, False, sites, self.cfg['disagree']))
            ams.append(gen_am(rng, 'am-net', None, self.dels, True, sites, self.cfg['disagree']))
            if rng.random() < 0.35:
                # an exchange-point aggregate that owns nothing but a stitching link: every element of its
                # advertisement is shared with other aggregates
                sx = rng.choice(sites)
                nodes = []
                for nid, cls, typ in (('stitch-%s-link' % sx, 'Link', 'L2Path'), ('net-%s-p' % sx, 'ConnectionPoint', 'TrunkPort'),
                                      ('%s-sw-up' % sx, 'ConnectionPoint', 'TrunkPort')):
                    p = {'Name': nid, 'Type': typ, 'StitchNode': 'true', 'Capacities': json.dumps({'bw': 100})}
                    if self.cfg['disagree']:
                        p['Details'] = 'as seen by am-ixp'
                    if cls == 'Link':
                        p['CapacityDelegations'] = gen_delegations(rng, self.dels, 'CapacityDelegations', {}, nid, allow_pool=False)
                    nodes.append([nid, cls, p])
                ams.append({'am': 'am-ixp', 'nodes': nodes,
                            'edges': [['stitch-%s-link' % sx, 'connects', 'net-%s-p' % sx],
                                      ['stitch-%s-link' % sx, 'connects', '%s-sw-up' % sx]]})
            return {'op': 'build', 'ams': ams}
        if self.steps_done >= self.cfg['steps']:
            return None
        self.steps_done += 1
        for _ in range(10):
            op = wchoice(rng, self.cfg['mix'])
            s = self.gen_op(rng, op)
            if s is not None:
                s['op'] = op
                return s
        return {'op': 'partition', 'am': sorted(self.ams)[0]}

    def gen_op(self, rng, op):
        ams = sorted(self.ams)
        if op in ('partition', 'rewrite'):
            return {'am': rng.choice(ams)}
        if op == 'grow':
            am = rng.choice(ams)
            self.grown = getattr(self, 'grown', 0) + 1
            p = {'Name': 'grown%d' % self.grown, 'Type': 'Server', 'StitchNode': 'false', 'Site': 'S0'}
            k = rng.random()
            for kind in (['LabelDelegations'] if k < 0.3 else ['CapacityDelegations'] if k < 0.6 else list(DEL_PROPS)):
                p[kind] = gen_delegations(rng, self.dels, kind, {}, None, allow_pool=False)
            return {'am': am, 'nid': '%s-grown%d' % (am, self.grown), 'props': p}
        if op == 'open_importer':
            return {'logger': rng.random() < 0.7}
        if op == 'send':
            cand = [a for a in ams if self.ams[a]['online']]
            if not cand:
                return None
            return {'am': rng.choice(cand), 'del': rng.choice(self.dels)}
        if op == 'deliver':
            if not self.net:
                return None
            s = {'msg': rng.choice([m['id'] for m in self.net])}
            if rng.random() < self.cfg['p_crash']:
                s['crash_at'] = rng.randint(1, 12)
            return s
        if op in ('duplicate', 'drop'):
            if not self.net:
                return None
            return {'msg': rng.choice([m['id'] for m in self.net])}
        if op == 'resend':
            if not self.dropped:
                return None
            return {'msg': rng.choice([m['id'] for m in self.dropped])}
        if op == 'offline':
            cand = [(d, a) for d in self.dels for a in sorted(self.brokers[d]['merged_by_am'])]
            if not cand:
                return None
            d, a = rng.choice(cand)
            return {'del': d, 'am': a}
        if op == 'comeback':
            cand = [a for a in ams if not self.ams[a]['online']]
            if not cand:
                return None
            return {'am': rng.choice(cand), 'new_id': rng.random() < 0.5}
        if op == 'snapshot':
            d = rng.choice(self.dels)
            if not self.brokers[d]['merged'] or len(self.brokers[d]['snaps']) >= 2:
                return None
            return {'del': d}
        if op == 'rollback':
            cand = [d for d in self.dels if self.brokers[d]['snaps']]
            if not cand:
                return None
            d = rng.choice(cand)
            return {'del': d, 'snap': rng.randrange(len(self.brokers[d]['snaps']))}
        return None

    # ------------------------------------------------------------------ execution
    def pg(self, gid):
        from fim.graph.networkx_property_graph import NetworkXPropertyGraph
        return NetworkXPropertyGraph(graph_id=gid, importer=self.imp)

    def state(self, gid):
        return graph_state(self.imp, gid)

    def exec_step(self, s):
        op = s['op']
        self._cur_op = op
        fn = getattr(self, 'do_' + op)
        outcome = fn(s)
        sh = h8(canon({d: self.state(self.brokers[d]['cbm'].graph_id) for d in self.dels}) if self.built else '')
        self.state_hashes.add(sh)
        self.log.add(self.cur_step, op, s.get('am'), s.get('del'), s.get('msg'), outcome, sh)
        self.stats.inc('ops.%s.%s' % (op, outcome))
        self.end_step()

    def do_build(self, s):
        for desc in s['ams']:
            am = desc['am']
            arm_id = 'arm-' + am
            g = self.pg(arm_id)
            for nid, cls, props in desc['nodes']:
                g.add_node(node_id=nid, label=cls, props=dict(props))
            for a, rel, b in desc['edges']:
                g.add_link(node_a=a, rel=rel, node_b=b)
            self.ams[am] = {'arm_id': arm_id, 'version': 0, 'online': True, 'adms': {}}
        for d in self.dels:
            self.brokers[d] = {'cbm': self.CBM(graph_id='cbm-' + d, importer=self.imp), 'merged': {},
                               'merged_by_am': {}, 'snaps': []}
        self.built = True
        return 'ok'

    # ---- C13
    def arm(self, am):
        from fim.graph.resources.networkx_arm import NetworkXARMGraph
        if self.cfg.get('retain_arm'):
            if not hasattr(self, '_arms'):
                self._arms = {}
            if am not in self._arms:
                self._arms[am] = NetworkXARMGraph(graph=self.pg(self.ams[am]['arm_id']))
            return self._arms[am]
        return NetworkXARMGraph(graph=self.pg(self.ams[am]['arm_id']))

    def do_grow(self, s):
        """the aggregate gains a (delegated) resource between two partitionings"""
        am = s['am']
        if am not in self.ams:
            raise SkipStep()
        self.pg(self.ams[am]['arm_id']).add_node(node_id=s['nid'], label='NetworkNode', props=dict(s['props']))
        self.mutations += 1
        return 'ok'

    def do_open_importer(self, s):
        """someone opens another importer on the shared store (with a logger or without): nothing stored changes"""
        import logging
        from fim.graph.networkx_property_graph import NetworkXGraphImporter
        ids = [i['arm_id'] for i in self.ams.values()] + [b['cbm'].graph_id for b in self.brokers.values()]
        pre = {g: self.state(g) for g in ids}
        NetworkXGraphImporter(logger=logging.getLogger('simfim-w3') if s.get('logger') else None)
        for g in ids:
            if canon(self.state(g)) != canon(pre[g]):
                prop, oracle = ('C14', 'cbm_untouched') if g.startswith('cbm-') else ('C13', 'arm_untouched')
                self.flag(prop, oracle, {'symptom': 'importer_opened'},
                          'opening another importer on the store changed model %s: %s' %
                          (g, state_diff(self.state(g), pre[g])[:300]))
        return 'ok'

    def partition(self, am, check=True):
        """generate_adms on the aggregate's ARM; returns {del id: adm graph id} (None if the call raised)"""
        info = self.ams[am]
        info['version'] += 1
        guids = {d: 'adm-%s-%s-v%d' % (am, d, info['version']) for d in DEL_IDS}
        if self.cfg.get('named_after_delegation') and am == sorted(self.ams)[0]:
            guids = {d: d for d in DEL_IDS}
        elif self.cfg.get('partial_guids'):
            guids = {d: g for d, g in guids.items() if d == DEL_IDS[0]}
        pre = self.state(info['arm_id'])
        try:
            adms = self.arm(am).generate_adms(delegation_guids=guids)
        except Exception as e:
            self.flag('C13', 'partition_raises', {'exc': type(e).__name__},
                      'generate_adms on aggregate %s raised %s: %s' % (am, type(e).__name__, str(e)[:300]))
            return None
        post = self.state(info['arm_id'])
        if canon(pre) != canon(post):
            self.flag('C13', 'arm_untouched', {}, 'generate_adms changed the aggregate model of %s: %s' %
                      (am, state_diff(post, pre)))
        out = {d: g.graph_id for d, g in adms.items()}
        if check:
            self.check_partition(am, pre, out)
        return out

    def check_partition(self, am, arm_state, adms):
        A = Struct(arm_state)
        # which delegation ids occur at all
        present = set()
        for n, p in A.n.items():
            for k in DEL_PROPS:
                v = jprop(p, k)
                if isinstance(v, dict):
                    present.update(v.keys())
        if set(adms) != present:
            self.flag('C13', 'adm_per_delegation', {}, 'aggregate %s has delegation ids %s, partitions were produced for %s'
                      % (am, sorted(present), sorted(adms)))
        stitch = set(n for n, p in A.n.items() if p.get('StitchNode') == 'true')
        for d, gid in sorted(adms.items()):
            M = Struct(self.state(gid))
            sig = {'del_count': len(present)}
            for n, p in A.n.items():
                mine = {k: jprop(p, k)[d] for k in DEL_PROPS if isinstance(jprop(p, k), dict) and d in jprop(p, k)}
                if mine and n not in M.n:
                    self.flag('C13', 'adm_has_delegated', sig, 'partition %s of %s lacks node %s which is delegated to %s'
                              % (d, am, n, d))
                    continue
                if n not in M.n:
                    continue
                mp = M.n[n]
                for k in DEL_PROPS:
                    got = jprop(mp, k)
                    want = {d: mine[k]} if k in mine else None
                    if isinstance(got, dict):
                        foreign = sorted(set(got) - {d})
                        if foreign:
                            self.flag('C13', 'adm_no_foreign_entry', dict(sig, kind=k),
                                      'partition %s of %s: node %s carries %s entries of other delegations %s' %
                                      (d, am, n, k, foreign))
                            continue
                    if canon(got if got else None) != canon(want):
                        self.flag('C13', 'adm_has_delegated', dict(sig, kind=k, symptom='own_entries'),
                                  'partition %s of %s: node %s has %s = %s, its own entries for %s are %s' %
                                  (d, am, n, k, canon(got)[:200], d, canon(want)[:200]))
                # sub-model: all other properties equal
                for key in sorted(set(p) | set(mp)):
                    if key in DEL_PROPS:
                        continue
                    if canon(p.get(key)) != canon(mp.get(key)):
                        self.flag('C13', 'adm_submodel', dict(sig, symptom='property', prop=key),
                                  'partition %s of %s: node %s property %s is %r, the aggregate has %r' %
                                  (d, am, n, key, mp.get(key), p.get(key)))
            extra = sorted(set(M.n) - set(A.n))
            if extra:
                self.flag('C13', 'adm_submodel', dict(sig, symptom='extra_nodes'), 'partition %s has nodes %s not in the '
                          'aggregate' % (d, extra[:3]))
            want_edges = {k: v for k, v in arm_state['edges'].items() if all(x in M.n for x in k.split('~'))}
            if canon(want_edges) != canon(M.state['edges']):
                self.flag('C13', 'adm_submodel', dict(sig, symptom='edges'),
                          'partition %s of %s: connections between kept elements differ: %s' %
                          (d, am, state_diff({'nodes': {}, 'edges': M.state['edges']}, {'nodes': {}, 'edges': want_edges},
                                             'partition', 'aggregate')))
            for cp in M.of_class('ConnectionPoint'):
                need = set()
                for l in A.links_of_cp(cp):
                    need.add(l)
                    need.update(A.cps_of_link(l))
                for sv in A.service_of_cp(cp):
                    need.add(sv)
                    need.update(A.owner_of_service(sv))
                miss = sorted(need - set(M.n))
                if miss:
                    self.flag('C13', 'adm_interface_closure', sig,
                              'partition %s of %s keeps interface %s but not its %s' % (d, am, cp, miss))
            miss = sorted(stitch - set(M.n))
            if miss:
                self.flag('C13', 'adm_stitch_present', sig, 'partition %s of %s lacks stitching elements %s' % (d, am, miss))
        self.mutations += 1

    def do_partition(self, s):
        am = s['am']
        if am not in self.ams:
            raise SkipStep()
        adms = self.partition(am)
        if adms is None:
            return 'raised'
        for gid in adms.values():
            self.imp.delete_graph(graph_id=gid)
        return 'ok'

    def do_rewrite(self, s):
        """re-keying a partition's delegations to a graph id changes only the key"""
        from fim.graph.resources.networkx_adm import NetworkXADMGraph
        am = s['am']
        if am not in self.ams:
            raise SkipStep()
        adms = self.partition(am, check=False)
        if not adms:
            return 'raised'
        for d, gid in sorted(adms.items()):
            pre = self.state(gid)
            try:
                NetworkXADMGraph(graph_id=gid, importer=self.imp).rewrite_delegations(real_adm_id='real-' + gid)
            except Exception as e:
                self.flag('C13', 'rewrite_only_key', {'symptom': 'raised', 'exc': type(e).__name__},
                          're-keying the delegations of partition %s raised %s: %s' % (gid, type(e).__name__, str(e)[:300]))
                return 'raised'
            post = self.state(gid)
            exp = {'nodes': {}, 'edges': pre['edges']}
            for n, lst in pre['nodes'].items():
                p = dict(lst[0])
                for k in DEL_PROPS:
                    v = jprop(p, k)
                    if isinstance(v, dict) and v:
                        if list(v.keys()) == [d]:
                            p[k] = {'_json': {'real-' + gid: v[d]}}
                exp['nodes'][n] = [p]
            norm = {'nodes': {}, 'edges': post['edges']}
            for n, lst in post['nodes'].items():
                p = dict(lst[0])
                for k in DEL_PROPS:
                    v = jprop(p, k)
                    if isinstance(v, dict) and v and isinstance(exp['nodes'].get(n, [{}])[0].get(k), dict):
                        p[k] = {'_json': v}
                norm['nodes'][n] = [p]
            if canon(norm) != canon(exp):
                self.flag('C13', 'rewrite_only_key', {}, 're-keying partition %s changed more than the key: %s' %
                          (gid, state_diff(norm, exp, 'after', 'expected')))
            elif s.get('again', True):
                # re-keying to the key the entries already have changes nothing at all
                try:
                    NetworkXADMGraph(graph_id=gid, importer=self.imp).rewrite_delegations(real_adm_id='real-' + gid)
                    post2 = self.state(gid)
                    if canon(post2) != canon(post):
                        self.flag('C13', 'rewrite_only_key', {'symptom': 'same_key_not_idempotent'},
                                  're-keying partition %s to the key it already has changed it: %s' %
                                  (gid, state_diff(post2, post, 'after', 'before')))
                except Exception as e:
                    self.flag('C13', 'rewrite_only_key', {'symptom': 'raised', 'exc': type(e).__name__, 'second': True},
                              're-keying partition %s to the key it already has raised %s: %s' %
                              (gid, type(e).__name__, str(e)[:300]))
            self.imp.delete_graph(graph_id=gid)
        # the original is left untouched *as its API shows it*: what the aggregate reports as each element's
        # delegations after a partition was re-keyed is what its stored properties say, and partitioning it once
        # more yields correct partitions again
        self.check_arm_delegations(am)
        again = self.partition(am)
        for gid in (again or {}).values():
            self.imp.delete_graph(graph_id=gid)
        return 'ok'

    def check_arm_delegations(self, am):
        from fim.slivers.delegations import DelegationType
        arm = self.arm(am)
        st = self.state(self.ams[am]['arm_id'])
        for n, lst in sorted(st['nodes'].items()):
            p = lst[0]
            for k, dt in (('LabelDelegations', DelegationType.LABEL), ('CapacityDelegations', DelegationType.CAPACITY)):
                want = jprop(p, k)
                try:
                    got = arm.get_delegations(node_id=n, delegation_type=dt)
                except Exception as e:
                    self.flag('C13', 'arm_untouched', {'symptom': 'get_delegations_raises', 'exc': type(e).__name__},
                              'get_delegations(%s, %s) on the aggregate of %s raised %s: %s' %
                              (n, k, am, type(e).__name__, str(e)[:200]))
                    continue
                gk = sorted(got.delegations.keys()) if got is not None else []
                wk = sorted(want.keys()) if isinstance(want, dict) else []
                if gk != wk:
                    self.flag('C13', 'arm_untouched', {'symptom': 'reported_delegation_ids'},
                              'after re-keying a partition, the aggregate of %s reports %s of %s under ids %s; its stored '
                              'property has ids %s' % (am, k, n, gk, wk))

    # ---- C14
    def do_send(self, s):
        from fim.graph.abc_property_graph import GraphFormat
        am, d = s['am'], s['del']
        if am not in self.ams or not self.ams[am]['online']:
            raise SkipStep()
        adms = self.partition(am)
        if adms is None:
            return 'raised'
        out = 'no_such_delegation'
        for dd, gid in sorted(adms.items()):
            if dd == d:
                g = self.pg(gid)
                text = g.serialize_graph()
                st = self.state(gid)
                self.msgc += 1
                self.net.append({'id': self.msgc, 'am': am, 'del': d, 'adm_id': gid, 'text': text, 'state': st})
                out = 'ok'
            self.imp.delete_graph(graph_id=gid)
        return out

    def find_msg(self, pool, mid):
        for m in pool:
            if m['id'] == mid:
                return m
        raise SkipStep()

    def do_duplicate(self, s):
        m = self.find_msg(self.net, s['msg'])
        self.msgc += 1
        self.net.append(dict(m, id=self.msgc))
        self.stats.inc('faults.net.duplicate')
        return 'ok'

    def do_drop(self, s):
        m = self.find_msg(self.net, s['msg'])
        self.net.remove(m)
        self.dropped.append(m)
        self.stats.inc('faults.net.drop')
        return 'ok'

    def do_resend(self, s):
        m = self.find_msg(self.dropped, s['msg'])
        self.dropped.remove(m)
        self.net.append(m)
        self.stats.inc('faults.net.resend')
        return 'ok'

    def expected_cbm(self, d):
        """union of the ADMs currently merged into broker d's combined model; order-free"""
        b = self.brokers[d]
        nodes, edges = {}, {}
        for adm_id in sorted(b['merged']):
            st = b['merged'][adm_id]
            for n, lst in st['nodes'].items():
                p = dict(lst[0])
                e = nodes.setdefault(n, {'props': {}, 'adms': set(), 'dels': {}})
                e['adms'].add(adm_id)
                for k, v in p.items():
                    if k in DEL_PROPS:
                        jv = jprop(p, k)
                        if isinstance(jv, dict) and jv:
                            e['dels'].setdefault(k, {})[adm_id] = list(jv.values())[0]
                    elif k != 'StructuralInfo':
                        e['props'].setdefault(k, set()).add(canon(v))
            for k, v in st['edges'].items():
                edges[k] = v
        return nodes, edges

    def check_cbm(self, d, why):
        b = self.brokers[d]
        gid = b['cbm'].graph_id
        real = self.state(gid)
        nodes, edges = self.expected_cbm(d)
        sig = {'after': why, 'agree': not self.cfg['disagree']}
        R = Struct(real)
        if R.dups:
            self.flag('C14', 'cbm_union', dict(sig, symptom='shared_element_twice'),
                      'combined model holds elements twice: %s' % R.dups[:3])
            return
        if set(real['nodes']) != set(nodes):
            self.flag('C14', 'cbm_union', dict(sig, symptom='elements'),
                      'combined model %s after %s: elements only in it %s, missing from it %s' %
                      (gid, why, sorted(set(real['nodes']) - set(nodes))[:4], sorted(set(nodes) - set(real['nodes']))[:4]))
            return
        for n in sorted(nodes):
            p = real['nodes'][n][0]
            e = nodes[n]
            si = jprop(p, 'StructuralInfo')
            got_adms = si.get('adm_graph_ids') if isinstance(si, dict) else None
            if got_adms is None or sorted(got_adms) != sorted(e['adms']):
                self.flag('C14', 'cbm_adm_ids', dict(sig, symptom='dup' if got_adms and len(got_adms) != len(set(got_adms)) else 'set'),
                          'element %s records contributing models %s, contributed by %s' % (n, got_adms, sorted(e['adms'])))
                return
            for k in DEL_PROPS:
                got = jprop(p, k)
                want = e['dels'].get(k)
                if not want:
                    if k in p:
                        self.flag('C14', 'unmerge_inverse' if why == 'unmerge' else 'cbm_delegation_keys',
                                  dict(sig, kind=k, symptom='empty_delegation_left' if p[k] == '' else 'stale'),
                                  'element %s has %s = %r although no merged model contributes a delegation there '
                                  '(a model that never saw that delegation has no such property)' % (n, k, p[k]))
                        return
                    continue
                if canon(got) != canon(want):
                    self.flag('C14', 'cbm_delegation_keys', dict(sig, kind=k),
                              'element %s has %s = %s, expected keyed by contributing model: %s' %
                              (n, k, canon(got)[:200], canon(want)[:200]))
                    return
            for k, vals in e['props'].items():
                if len(vals) > 1:
                    # the contributing models disagree about an ordinary property of a shared element: whatever
                    # the combined model holds was decided by merge order
                    self.flag('C14', 'cbm_union', dict(sig, symptom='property', prop='(disagreeing sources)'),
                              'element %s: contributing models disagree on %s (%s); the combined model holds %r, which '
                              'depends on the order of merging' % (n, k, sorted(vals), p.get(k)))
                    return
                if canon(p.get(k)) != list(vals)[0]:
                    self.flag('C14', 'cbm_union', dict(sig, symptom='property',
                                                       prop=k if not self.cfg['disagree'] else '(disagreeing sources)'),
                              'element %s property %s = %r, every contributing model says %s' % (n, k, p.get(k), list(vals)[0]))
                    return
            extra = sorted(set(p) - set(e['props']) - set(DEL_PROPS) - {'StructuralInfo'})
            if extra:
                self.flag('C14', 'cbm_union', dict(sig, symptom='extra_property', prop=extra[0]),
                          'element %s carries properties %s no model contributed' % (n, extra))
                return
        if canon(real['edges']) != canon(edges):
            self.flag('C14', 'cbm_union', dict(sig, symptom='connections'),
                      'connections of the combined model differ from the union: %s' %
                      state_diff({'nodes': {}, 'edges': real['edges']}, {'nodes': {}, 'edges': edges}, 'combined', 'union'))

    avoid_ok = set()

    def do_deliver(self, s):
        m = self.find_msg(self.net, s['msg'])
        d = m['del']
        b = self.brokers[d]
        cbm = b['cbm']
        self.net.remove(m)
        adm_id = m['adm_id']
        if adm_id in b['merged']:
            # an advertisement that is already merged (duplicate delivery): the broker recognises it by id
            self.stats.inc('faults.net.duplicate_delivery_ignored')
            return 'duplicate_ignored'
        prev = b['merged_by_am'].get(m['am'])
        if prev is not None and prev != adm_id:
            # a newer advertisement of the same aggregate: the old one goes first
            self.unmerge(d, prev, 'superseded')
            if self.pending:
                return 'unmerge_failed'
        # import keeps the graph id written into the text (wire format = C01)
        try:
            g = self.imp.import_graph_from_string_direct(graph_string=m['text'])
        except Exception as e:
            self.flag('C01', 'rt_import', {'world': 'W3'}, 'broker could not import advertisement %s: %r' % (adm_id, e))
            return 'import_failed'
        got = self.state(adm_id)
        if g.graph_id != adm_id or canon(got) != canon(m['state']):
            self.flag('C01', 'rt_state_equal', {'world': 'W3'}, 'advertisement %s changed on the wire: %s' %
                      (adm_id, state_diff(got, m['state'], 'imported', 'sent')))
            return 'wire_changed'
        pre_cbm = self.state(cbm.graph_id)
        snap = cbm.snapshot() if pre_cbm['nodes'] else None
        crash = s.get('crash_at')
        self.CBM.calls = 0
        self.CBM.fault = {'left': crash} if crash else None
        try:
            cbm.merge_adm(adm=g)
            self.CBM.fault = None
            outcome = 'ok'
        except InjectedCrash:
            outcome = 'crashed'
            self.faults += 1
            self.stats.inc('faults.merge_crash.at_call_%d' % min(crash, 10))
        except Exception as e:
            self.CBM.fault = None
            self.flag('C14', 'merge_raises', {'exc': type(e).__name__, 'agree': not self.cfg['disagree']},
                      'merging advertisement %s into %s raised %s: %s' % (adm_id, cbm.graph_id, type(e).__name__, str(e)[:300]))
            return 'raised'
        if canon(self.state(adm_id)) != canon(m['state']):
            self.flag('C14', 'sources_untouched', {'outcome': outcome}, 'merging changed the source model %s: %s' %
                      (adm_id, state_diff(self.state(adm_id), m['state'])))
        if outcome == 'crashed':
            if canon(self.state(cbm.graph_id)) != canon(pre_cbm):
                self.stats.inc('probe.crash_after_partial_merge')
            # the broker rolls back to the snapshot taken before the merge, the message will come again
            if snap is not None:
                cbm.rollback(graph_id=snap)
            else:
                cbm.delete_graph()
            now = self.state(cbm.graph_id)
            if canon(now) != canon(pre_cbm):
                self.flag('C14', 'rollback_restores', {'after': 'crashed_merge', 'had_snapshot': snap is not None},
                          'rolling back after a failure inside merge does not restore the combined model: %s' %
                          state_diff(now, pre_cbm, 'after rollback', 'before merge'))
            self.net.append(m)
            return 'crashed'
        if snap is not None:
            self.imp.delete_graph(graph_id=snap)
        b['merged'][adm_id] = m['state']
        b['merged_by_am'][m['am']] = adm_id
        self.mutations += 1
        self.check_cbm(d, 'merge')
        return 'ok'

    def unmerge(self, d, adm_id, why):
        b = self.brokers[d]
        cbm = b['cbm']
        try:
            cbm.unmerge_adm(graph_id=adm_id)
        except Exception as e:
            self.flag('C14', 'unmerge_inverse', {'symptom': 'raised', 'exc': type(e).__name__},
                      'unmerging %s from %s raised %s: %s' % (adm_id, cbm.graph_id, type(e).__name__, str(e)[:300]))
            return
        b['merged'].pop(adm_id, None)
        for a, g in list(b['merged_by_am'].items()):
            if g == adm_id:
                del b['merged_by_am'][a]
        self.imp.delete_graph(graph_id=adm_id)
        self.mutations += 1
        self.check_cbm(d, 'unmerge')

    def do_offline(self, s):
        d, am = s['del'], s['am']
        b = self.brokers.get(d)
        if b is None or am not in b['merged_by_am']:
            raise SkipStep()
        self.ams[am]['online'] = False
        self.stats.inc('faults.membership.offline')
        self.unmerge(d, b['merged_by_am'][am], 'offline')
        return 'ok'

    def do_comeback(self, s):
        am = s['am']
        if am not in self.ams or self.ams[am]['online']:
            raise SkipStep()
        self.ams[am]['online'] = True
        self.stats.inc('faults.membership.return')
        return 'ok'

    def do_snapshot(self, s):
        d = s['del']
        b = self.brokers[d]
        if not b['merged']:
            raise SkipStep()
        try:
            gid = b['cbm'].snapshot()
        except Exception as e:
            self.flag('C14', 'rollback_restores', {'after': 'snapshot', 'symptom': 'raised', 'exc': type(e).__name__},
                      'taking a snapshot of the combined model raised %s: %s' % (type(e).__name__, str(e)[:200]))
            return 'raised'
        for x in [x for x in b['snaps'] if x[0] == gid]:
            # the store now holds the new snapshot under the id of an outstanding one: that one can no longer be
            # rolled back to (harmless only if nothing changed in between)
            if canon(x[3]) != canon(self.state(b['cbm'].graph_id)):
                self.flag('C14', 'rollback_restores', {'after': 'snapshot', 'symptom': 'snapshot_overwritten'},
                          'a second snapshot was stored under the id %s of an outstanding snapshot of a different '
                          'combined model, which is thereby lost' % gid)
                return 'ok'
            b['snaps'].remove(x)
        b['snaps'].append((gid, dict(b['merged']), dict(b['merged_by_am']), self.state(b['cbm'].graph_id)))
        if canon(self.state(gid)) != canon(self.state(b['cbm'].graph_id)):
            self.flag('C14', 'rollback_restores', {'after': 'snapshot'}, 'a snapshot differs from the combined model')
        return 'ok'

    def do_rollback(self, s):
        d = s['del']
        b = self.brokers[d]
        if s['snap'] >= len(b['snaps']):
            raise SkipStep()
        gid, merged, by_am, st = b['snaps'].pop(s['snap'])
        try:
            b['cbm'].rollback(graph_id=gid)
        except Exception as e:
            self.flag('C14', 'rollback_restores', {'after': 'explicit', 'symptom': 'raised', 'exc': type(e).__name__},
                      'rolling back to snapshot %s raised %s: %s' % (gid, type(e).__name__, str(e)[:200]))
            return 'raised'
        b['merged'], b['merged_by_am'] = merged, by_am
        now = self.state(b['cbm'].graph_id)
        if canon(now) != canon(st):
            self.flag('C14', 'rollback_restores', {'after': 'explicit'},
                      'rolling back to a snapshot does not restore the combined model: %s' % state_diff(now, st))
        self.mutations += 1
        return 'ok'

    def finish(self):
        if not self.built or self.pending:
            return
        # bounded liveness: faults have stopped; deliver everything still in flight (and re-send what was dropped);
        # within 2 x #ADMs further steps every broker's combined model equals the union over live advertisements
        budget = 2 * (len(self.net) + len(self.dropped)) + 2
        self.net.extend(self.dropped)
        self.dropped = []
        steps = 0
        while self.net and steps < budget:
            m = self.net[0]
            self._cur_op = 'drain'
            self.do_deliver({'msg': m['id']})
            steps += 1
            if self.pending:
                self.end_step()
        if self.net:
            self.flag('C14', 'converges_after_faults', {}, 'messages still undelivered after %d fault-free steps' % steps)
        for d in self.dels:
            self.check_cbm(d, 'quiescence')
        self.end_step()
