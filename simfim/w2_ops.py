"""
W2 operations: state-dependent generation, execution through the public
topology API, and the C08 removal oracle (independent owned-closure prediction).
Steps name their targets symbolically (node / component / interface / service
names); a target that no longer exists after shrinking makes the step a no-op
(SkipStep).
"""
import json

from .kernel import SkipStep, HarnessError, canon
from .struct import Struct, state_diff, CLASS, NAME, TYPE
from . import w2 as W

GEN = {}
EXE = {}
KIND = {}


def op(name, kind):
    def deco(fn):
        if fn.__name__.startswith('g_'):
            GEN[name] = fn
        else:
            EXE[name] = fn
        KIND[name] = kind
        return fn
    return deco


def generate(w, rng, name, st):
    g = GEN.get(name)
    if g is None:
        return None
    if w.cfg['flavour'] == 'substrate' and name not in W.SUBSTRATE_MIX and name != 'failing':
        return None
    s = g(w, rng, st)
    if s is None:
        return None
    if isinstance(s, tuple) and s[0] == '__raw__':
        return s[1]            # a complete step of another operation (set-up step of a failing template)
    s['op'] = name
    return s


def execute(w, s, pre, st):
    fn = EXE.get(s['op'])
    if fn is None:
        raise HarnessError('unknown W2 op %s' % s['op'])
    kind = KIND[s['op']]
    info = {'kind': kind}
    try:
        r = fn(w, s, st, info)
        info['outcome'] = 'ok'
        info['result'] = r
    except SkipStep:
        raise
    except HarnessError:
        raise
    except Exception as e:
        info['outcome'] = 'exc:' + type(e).__name__
        info['exc'] = e
        info['msg'] = str(e)[:200]
    return info


# ---------------------------------------------------------------- value builders (JSON description -> objects)
def build_kwargs(desc):
    from fim.slivers.capacities_labels import Capacities, Labels, CapacityHints, Flags, ReservationInfo, Location
    from fim.slivers.tags import Tags
    from fim.slivers.json_data import UserData, MeasurementData, LayoutData
    from fim.slivers.gateway import Gateway
    out = {}
    for k, v in (desc or {}).items():
        if isinstance(v, dict) and '_t' in v:
            t = v['_t']
            a = v.get('a', {})
            if t == 'Capacities':
                out[k] = Capacities(**a)
            elif t == 'Labels':
                out[k] = Labels(**a)
            elif t == 'CapacityHints':
                out[k] = CapacityHints(**a)
            elif t == 'Flags':
                out[k] = Flags(**a)
            elif t == 'Tags':
                out[k] = Tags(*a)
            elif t == 'UserData':
                out[k] = UserData(a if v.get('o') else json.dumps(a))   # built from the object or from its JSON text
            elif t == 'MeasurementData':
                out[k] = MeasurementData(a if v.get('o') else json.dumps(a))   # built from the object or from its JSON text
            elif t == 'LayoutData':
                out[k] = LayoutData(a if v.get('o') else json.dumps(a))   # built from the object or from its JSON text
            elif t == 'ReservationInfo':
                out[k] = ReservationInfo(**a)
            elif t == 'Location':
                out[k] = Location(**a)
            elif t == 'Gateway':
                out[k] = Gateway(Labels(**a))
            else:
                raise HarnessError('unknown value type %s' % t)
        else:
            out[k] = v
    return out


def gen_good_kwargs(rng, kind):
    """a few valid constructor kwargs for an element kind"""
    d = {}
    if rng.random() < 0.5:
        if kind == 'node':
            d['capacities'] = {'_t': 'Capacities', 'a': {'core': rng.choice([1, 2, 4, 8]), 'ram': rng.choice([4, 8, 16]),
                                                        'disk': rng.choice([10, 100])}}
        else:
            d['capacities'] = {'_t': 'Capacities', 'a': {'bw': rng.choice([1, 10, 25, 100])}}
    if rng.random() < 0.3:
        if kind in ('service', 'iface'):
            d['labels'] = {'_t': 'Labels', 'a': {'vlan': str(rng.randint(100, 200))}}
        else:
            d['labels'] = {'_t': 'Labels', 'a': {'instance_parent': 'worker%d' % rng.randint(1, 3)}}
    if kind == 'node' and rng.random() < 0.3:
        d['image_type'] = 'qcow2'
        d['image_ref'] = rng.choice(['default_centos_8', 'default_ubuntu_20'])
    if rng.random() < 0.2:
        d['user_data'] = {'_t': 'UserData', 'a': {'k': rng.randint(0, 3)}}
    if rng.random() < 0.15:
        d['tags'] = {'_t': 'Tags', 'a': ['blue', 'heavy'][:rng.randint(1, 2)]}
    if rng.random() < 0.15:
        d['flags'] = {'_t': 'Flags', 'a': {'auto_config': rng.random() < 0.5}}
    if rng.random() < 0.1:
        d['boot_script'] = '#!/bin/bash\necho "hi <&>"'
    if rng.random() < 0.1:
        d['details'] = 'some "details"'
    if kind in ('node', 'component', 'service', 'iface') and rng.random() < 0.3:
        # any other settable property may be given at creation too (it is read back after the call, C02)
        from . import w2_props
        skind = 'interface' if kind == 'iface' else kind
        names = [n for n in w2_props.settable(skind) if n not in w2_props.NOT_GENERATED and n not in CTOR_PARAMS and
                 n not in d]
        for _ in range(rng.choice([1, 1, 2])):
            n = rng.choice(names)
            v = w2_props.gen_value(rng, n, skind)
            if v is not None and n not in d:
                d[n] = v
    return d


# names that are parameters of the creating call itself (or change what is being created)
CTOR_PARAMS = {'name', 'type', 'site', 'model', 'node_id', 'stitch_node', 'mirror_port', 'mirror_vlan', 'mirror_direction'}


def build_ctor_kwargs(desc):
    from . import w2_props
    return {k: w2_props.build_value(v) for k, v in (desc or {}).items()}


def check_creation_kwargs(w, e, desc, kind):
    """what was given to the creating call reads back from the new element (C02: setting a property and reading it
    back returns an equal value - a constructor argument is a set)"""
    from . import w2_props
    for k, v in (desc or {}).items():
        want = w2_props.canon_value(w2_props.build_value(v))
        try:
            got = w2_props.canon_value(e.get_property(k))
        except Exception as ex:
            w.flag('C02', 'prop_set_get', {'kind': kind, 'name': k, 'via': 'creation', 'symptom': 'raises'},
                   '%s created with %s=%s: reading it back raised %r' % (kind, k, canon(want)[:120], ex))
            continue
        if canon(got) != canon(want):
            w.flag('C02', 'prop_set_get', {'kind': kind, 'name': k, 'via': 'creation'},
                   '%s created with %s=%s reads back %s' % (kind, k, canon(want)[:200], canon(got)[:200]))


BAD_KWARGS = [
    ('capacities', 'not-a-capacities-object'),
    ('labels', 12),
    ('no_such_property', 1),
    ('boot_script', 'x' * 2000),
    ('tags', ['plain', 'list']),
    ('user_data', '{not json'),
]


def free_ifaces(st, kinds=None):
    """[(node name, iface name, cp id)] of node-side interfaces without a link"""
    out = []
    for n in st.of_class('NetworkNode'):
        for cp in st.node_interfaces(n):
            if not st.links_of_cp(cp) and (kinds is None or st.typ(cp) in kinds):
                out.append((st.name(n), st.name(cp), cp))
    return out


def all_ifaces(st, connected=None):
    out = []
    for n in st.of_class('NetworkNode'):
        for cp in st.node_interfaces(n):
            c = bool(st.links_of_cp(cp))
            if connected is None or c == connected:
                out.append((st.name(n), st.name(cp), cp))
    return out


def top_services(st):
    return [s for s in st.of_class('NetworkService') if not st.owner_of_service(s)]


def interest(st, ids):
    """how much structure hangs on these elements: connected ports, sub-interfaces, links with > 2 ends, peerings"""
    score = 0
    for x in ids:
        if x in st.n and st.cls(x) == 'ConnectionPoint':
            score += len(st.child_cps(x)) * 2
            for k in st.child_cps(x):
                score += 2 * len(st.links_of_cp(k))
            for l in st.links_of_cp(x):
                score += 1 + (2 if len(st.cps_of_link(l)) > 2 else 0)
            if st.typ(x) == 'ServicePort' and any(st.typ(p) == 'ServicePort' for p in st.peers(x)):
                score += 3
    return score


def pick_interesting(rng, cands, score, p=0.6):
    """mostly the candidate with the most structure attached (ties broken by the PRNG), sometimes any"""
    if not cands:
        return None
    if rng.random() < p:
        best = max(score(c) for c in cands)
        if best > 0:
            return rng.choice([c for c in cands if score(c) == best])
    return rng.choice(cands)


def pick_name(rng, pool, existing, p_fresh=0.8):
    fresh = [x for x in pool if x not in existing]
    if fresh and rng.random() < p_fresh:
        return rng.choice(fresh)
    return rng.choice(pool)


def maybe_id(w, rng, st):
    """library-generated (None) or caller-supplied node id"""
    if len(getattr(w, 'sessions', {})) > 1 and rng.random() < 0.3:
        # an id the OTHER session's model already uses (ids are unique per graph, not per store)
        other = [c for k, c in w.sessions.items() if c is not None]
        if other:
            from .struct import graph_state
            ids = sorted(set(graph_state(w.imp, other[0]['topo'].graph_model.graph_id)['nodes']) - set(st.n))
            if ids:
                w.stats.inc('probe.second_session.id_of_other_session_offered')
                return rng.choice(ids)
    if w.cfg['flavour'] == 'substrate':
        return w.new_id(rng)
    if rng.random() < w.cfg['p_supplied_id']:
        return w.new_id(rng)
    return None


# ---------------------------------------------------------------- lookups through the public API
def get_node(w, name):
    t = w.topo
    n = t.nodes.get(name)
    if n is None:
        n = t.facilities.get(name)
    if n is None:
        raise SkipStep()
    return n


def get_iface(w, ref):
    n = get_node(w, ref['node'])
    i = n.interfaces.get(ref['if'])
    if i is None:
        raise SkipStep()
    if ref.get('sub'):
        j = i.interfaces.get(ref['sub'])
        if j is None:
            raise SkipStep()
        return j
    return i


def get_iface_retained(w, ref):
    """the Interface object of a port, kept across calls like a user's variable would be (sessions that retain
    handles); only for ports, not for sub-interfaces"""
    if ref.get('sub') or not w.cfg.get('retain_handles'):
        return get_iface(w, ref)
    key = '%s/%s' % (ref['node'], ref['if'])
    h = w.if_handles.get(key)
    if h is not None:
        try:
            w.topo.graph_model.get_node_properties(node_id=h.node_id)
            fresh = get_iface(w, ref)
            if fresh.node_id == h.node_id:
                return h
        except SkipStep:
            raise
        except Exception:
            pass
        del w.if_handles[key]
    h = get_iface(w, ref)
    w.if_handles[key] = h
    return h


def get_node_service_retained(w, node, svc):
    """handle of a node-level service, kept across calls in sessions that retain handles"""
    n = get_node(w, node)
    fresh = n.network_services.get(svc)
    _exists_or_skip_(fresh is not None)
    if not w.cfg.get('retain_handles'):
        return fresh
    key = 'ns:%s/%s' % (node, svc)
    h = w.if_handles.get(key)
    if h is not None and h.node_id == fresh.node_id:
        return h
    w.if_handles[key] = fresh
    return fresh


def _exists_or_skip_(cond):
    if not cond:
        raise SkipStep()


def get_service(w, name, fresh=False):
    if not fresh and w.cfg.get('retain_handles') and name in w.handles:
        h = w.handles[name]
        # a retained handle is only usable while its element exists
        try:
            w.topo.graph_model.get_node_properties(node_id=h.node_id)
            return h
        except Exception:
            del w.handles[name]
    s = w.topo.network_services.get(name)
    if s is None:
        raise SkipStep()
    return s


def iface_ref(st, cp):
    """symbolic reference of a node-side interface id"""
    if st.is_sub(cp):
        p = st.parent_cp(cp)
        if not p:
            return None
        r = iface_ref(st, p[0])
        if r is None:
            return None
        return dict(r, sub=st.name(cp))
    n = st.owner_node_of_cp(cp)
    if n is None:
        return None
    return {'node': st.name(n), 'if': st.name(cp)}


def note_handle(w, info, h, st):
    """remember a handle the call goes through, and whether it agreed with the model before the call"""
    try:
        got = sorted(i.node_id for i in h.interface_list)
        if st.cls(h.node_id) == 'NetworkService':
            want = sorted(st.cps_of_service(h.node_id))
        else:
            want = sorted(st.child_cps(h.node_id))
        insync = got == want
    except Exception:
        insync = False
    if insync:
        info.setdefault('handles', []).append(h)
    else:
        w.stats.inc('probe.handle_stale_before_call')


# ================================================================ building calls
@op('add_node', 'add')
def g_add_node(w, rng, st):
    existing = [st.name(n) for n in st.of_class('NetworkNode')]
    return {'name': pick_name(rng, W.NODE_NAMES, existing), 'site': rng.choice(W.SITES),
            'ntype': wchoice_(rng, {'VM': 8, 'Server': 2, 'Container': 0.5, 'NAS': 0.3}),
            'id': maybe_id(w, rng, st), 'kw': gen_good_kwargs(rng, 'node')}


def wchoice_(rng, d):
    from .values import wchoice
    return wchoice(rng, d)


@op('add_node', 'add')
def x_add_node(w, s, st, info):
    from fim.slivers.network_node import NodeType
    n = w.topo.add_node(name=s['name'], site=s['site'], ntype=NodeType[s['ntype']], node_id=s['id'],
                        **build_ctor_kwargs(s['kw']))
    check_creation_kwargs(w, n, s['kw'], 'node')


@op('add_component', 'add')
def g_add_component(w, rng, st):
    nodes = [n for n in st.of_class('NetworkNode') if st.typ(n) in ('VM', 'Server', 'Container')]
    if not nodes:
        return None
    n = rng.choice(nodes)
    existing = [st.name(c) for c in st.components_of(n)]
    s = {'node': st.name(n), 'name': pick_name(rng, W.COMP_NAMES, existing), 'model': rng.choice(W.COMP_MODELS + W.COMP_MODELS_NIC_BIAS),
         'id': maybe_id(w, rng, st), 'kw': gen_good_kwargs(rng, 'component') if rng.random() < 0.3 else {}}
    if w.cfg['flavour'] == 'substrate':
        s['nsid'] = w.new_id(rng)
        s['ifids'] = [w.new_id(rng), w.new_id(rng)]
    return s


@op('add_component', 'add')
def x_add_component(w, s, st, info):
    n = get_node(w, s['node'])
    kw = build_ctor_kwargs(s['kw'])
    if w.cfg['flavour'] == 'substrate':
        from fim.slivers.capacities_labels import Labels
        from fim.slivers.component_catalog import ComponentModelTypeMap
        cat = ComponentModelTypeMap[w.cmt(s['model'])]
        nif = 1 if s['model'].startswith('SharedNIC') else 2
        has_if = s['model'].split('_')[0] in ('SharedNIC', 'SmartNIC', 'FPGA')
        if has_if:
            labs = [Labels(bdf='0000:41:00.%d' % i, mac='0C:42:A1:EA:C7:5%d' % i) for i in range(nif)]
            c = n.add_component(name=s['name'], model_type=w.cmt(s['model']), node_id=s['id'],
                                network_service_node_id=s['nsid'], interface_node_ids=s['ifids'][:nif],
                                interface_labels=labs, **kw)
        else:
            c = n.add_component(name=s['name'], model_type=w.cmt(s['model']), node_id=s['id'], **kw)
    else:
        c = n.add_component(name=s['name'], model_type=w.cmt(s['model']), node_id=s['id'], **kw)
    check_creation_kwargs(w, c, s['kw'], 'component')


@op('add_storage', 'add')
def g_add_storage(w, rng, st):
    nodes = [n for n in st.of_class('NetworkNode') if st.typ(n) in ('VM', 'Server')]
    if not nodes:
        return None
    n = rng.choice(nodes)
    return {'node': st.name(n), 'name': rng.choice(['vol1', 'vol2']), 'id': maybe_id(w, rng, st)}


@op('add_storage', 'add')
def x_add_storage(w, s, st, info):
    from fim.slivers.capacities_labels import Labels
    get_node(w, s['node']).add_storage(name=s['name'], node_id=s['id'], labels=Labels(local_name=s['name']))


@op('add_facility', 'add')
def g_add_facility(w, rng, st):
    existing = [st.name(n) for n in st.of_class('NetworkNode')]
    s = {'name': pick_name(rng, W.FAC_NAMES, existing), 'site': rng.choice(W.SITES), 'id': maybe_id(w, rng, st)}
    if rng.random() < 0.35:
        k = rng.randint(1, 3)
        if 'facility_tuples_with_id' in w.avoid and s['id'] is not None:
            k = 1
        s['tuples'] = [['%s-i%d' % (s['name'], i), {'vlan': str(100 + i)}, {'bw': 10}] for i in range(k)]
    else:
        s['kw'] = {'capacities': {'_t': 'Capacities', 'a': {'bw': 10}}} if rng.random() < 0.5 else {}
    return s


@op('add_facility', 'add')
def x_add_facility(w, s, st, info):
    from fim.slivers.capacities_labels import Labels, Capacities
    xkw = dict(s.get('xkw') or {})
    if xkw.pop('nstype_none', None):
        xkw['nstype'] = None
    if s.get('tuples'):
        ifs = [(n, Labels(**l) if isinstance(l, dict) else l, Capacities(**c) if isinstance(c, dict) else c)
               for n, l, c in s['tuples']]
        w.topo.add_facility(name=s['name'], site=s['site'], node_id=s['id'], interfaces=ifs, **xkw)
    else:
        w.topo.add_facility(name=s['name'], site=s['site'], node_id=s['id'], **dict(build_kwargs(s.get('kw')), **xkw))


@op('add_switch', 'add')
def g_add_switch(w, rng, st):
    existing = [st.name(n) for n in st.of_class('NetworkNode')]
    return {'name': pick_name(rng, W.SW_NAMES, existing), 'site': rng.choice(W.SITES), 'id': maybe_id(w, rng, st),
            'nports': rng.randint(1, 4)}


@op('add_switch', 'add')
def x_add_switch(w, s, st, info):
    xkw = dict(s.get('xkw') or {})        # raw (possibly ill-typed) keyword arguments of the failing templates
    if xkw.pop('nstype_none', None):
        xkw['nstype'] = None
    w.topo.add_switch(name=s['name'], site=s['site'], node_id=s['id'], nports=s['nports'], **xkw)


@op('add_network_service', 'add')
def g_add_network_service(w, rng, st):
    existing = [st.name(x) for x in top_services(st)]
    nstype = rng.choice(W.EXP_SVC_TYPES)
    if 'l2multisite' not in w.avoid and rng.random() < 0.05:
        nstype = 'L2Multisite'
    free = free_ifaces(st)
    rng.shuffle(free)
    k = rng.choice([0, 1, 2, 2, 3, 4])
    ifs = [{'node': a, 'if': b} for a, b, _ in free[:k]]
    # sub-interfaces are connectable too
    subs = [cp for cp in st.of_class('ConnectionPoint') if st.is_sub(cp) and not st.links_of_cp(cp)]
    if subs and rng.random() < 0.35:
        for c in rng.sample(subs, min(len(subs), rng.choice([1, 1, 2]))):
            r = iface_ref(st, c)
            if r:
                ifs.append(r)
    if rng.random() < (0.3 if w.prop == 'C10' else 0.06):
        # a type that restricts the kinds of interface it takes, given one permitted and one other kind (not a shared
        # port, which the connect-time guard rail refuses before any table is consulted)
        ok = [f for f in free if st.typ(f[2]) in ('DedicatedPort', 'FacilityPort')]
        other = [f for f in free if st.typ(f[2]) not in ('DedicatedPort', 'FacilityPort', 'SharedPort')]
        if ok and other:
            pair = [rng.choice(ok), rng.choice(other)]
            rng.shuffle(pair)
            nstype = 'L2PTP'
            ifs = [{'node': a, 'if': b} for a, b, _ in pair]
            w.stats.inc('probe.l2ptp_mixed_interface_kinds')
    kw = gen_good_kwargs(rng, 'service') if rng.random() < 0.3 else {}
    s = {'name': pick_name(rng, W.SVC_NAMES, existing), 'nstype': nstype, 'ifs': ifs, 'id': maybe_id(w, rng, st),
         'kw': kw}
    if rng.random() < 0.2:
        s['ifs_as'] = rng.choice(['tuple', 'generator'])     # the interfaces need not come as a list
    if rng.random() < 0.15:
        s['site'] = rng.choice(W.SITES)
    return s


@op('add_network_service', 'add')
def x_add_network_service(w, s, st, info):
    from fim.slivers.network_service import ServiceType
    ifs = [get_iface(w, r) for r in s['ifs']]
    if s.get('ifs_as') == 'tuple':
        ifs = tuple(ifs)
    elif s.get('ifs_as') == 'generator':
        ifs = (i for i in list(ifs))
    kw = build_ctor_kwargs(s['kw'])
    if s.get('site'):
        kw['site'] = s['site']
    ns = w.topo.add_network_service(name=s['name'], nstype=ServiceType[s['nstype']], interfaces=ifs,
                                    node_id=s['id'], **kw)
    check_creation_kwargs(w, ns, s['kw'], 'service')
    w.handles[s['name']] = ns
    info['handles'] = [ns]


@op('add_port_mirror_service', 'add')
def g_add_port_mirror_service(w, rng, st):
    existing = [st.name(x) for x in top_services(st)]
    free = free_ifaces(st)
    if not free:
        return None
    a, b, cp = rng.choice(free)
    allif = all_ifaces(st)
    src = rng.choice(allif)[1] if allif and rng.random() < 0.7 else rng.choice(['p1', 'HundredGigE0/0/0/5'])
    s = {'name': pick_name(rng, W.SVC_NAMES, existing), 'to': {'node': a, 'if': b}, 'from': src,
         'vlan': rng.choice([None, '100']), 'dir': rng.choice(['Both', 'RX_Only', 'TX_Only']),
         'id': maybe_id(w, rng, st)}
    if rng.random() < 0.3:
        s['site'] = rng.choice(W.SITES)        # a declared site (read back; validate() must hold the slice to it)
    return s


@op('add_port_mirror_service', 'add')
def x_add_port_mirror_service(w, s, st, info):
    from fim.slivers.network_service import MirrorDirection
    kw = {'site': s['site']} if s.get('site') else {}
    ns = w.topo.add_port_mirror_service(name=s['name'], from_interface_name=s['from'], to_interface=get_iface(w, s['to']),
                                        from_interface_vlan=s['vlan'], direction=MirrorDirection[s['dir']],
                                        node_id=s['id'], **kw)
    if kw and s.get('op') != 'failing':
        got = ns.get_property('site')
        if got != s['site']:
            w.flag('C02', 'prop_set_get', {'kind': 'service', 'name': 'site', 'via': 'creation', 'type': 'PortMirror'},
                   'port-mirror service created with site=%r reads back %r' % (s['site'], got))
    w.handles[s['name']] = ns
    info['handles'] = [ns]


@op('connect_interface', 'add')
def g_connect_interface(w, rng, st):
    svcs = top_services(st)
    free = free_ifaces(st)
    subs = [c for c in st.of_class('ConnectionPoint') if st.is_sub(c) and not st.links_of_cp(c)]
    if not svcs or not (free or subs):
        return None
    sv = rng.choice(svcs)
    if subs and 'subif_name_reuse' not in w.avoid:
        # equally named sub-interfaces of one node on one service: their service ports get the same derived name
        for x in svcs:
            peers = [p for sp in st.cps_of_service(x) for p in st.peers(sp) if st.is_sub(p)]
            twins = [c for c in subs if any(st.name(c) == st.name(p) and st.owner_node_of_cp(c) == st.owner_node_of_cp(p)
                                            for p in peers)]
            if twins and rng.random() < 0.7:
                r = iface_ref(st, rng.choice(twins))
                if r:
                    return {'svc': st.name(x), 'iface': r}
    if subs and (not free or rng.random() < 0.55):
        cp = rng.choice(subs)
        r = iface_ref(st, cp)
        if r is None:
            return None
        return {'svc': st.name(sv), 'iface': r}
    a, b, cp = rng.choice(free)
    if 'guardrail_on_connect' in w.avoid and st.typ(sv) == 'L2PTP' and st.typ(cp) == 'SharedPort':
        return None
    return {'svc': st.name(sv), 'iface': {'node': a, 'if': b}, 'fresh': rng.random() < 0.3}


@op('connect_interface', 'add')
def x_connect_interface(w, s, st, info):
    # some calls go through a freshly looked-up object although the session keeps one (two objects of one service)
    sv = get_service(w, s['svc'], fresh=bool(s.get('fresh')))
    note_handle(w, info, sv, st)
    sv.connect_interface(get_iface(w, s['iface']))


@op('add_child_interface', 'add')
def g_add_child_interface(w, rng, st):
    ded = [cp for n in st.of_class('NetworkNode') for cp in st.node_interfaces(n) if st.typ(cp) == 'DedicatedPort']
    if not ded:
        return None
    # ports that already have a sub-interface, or sit on a link, first
    cp = pick_interesting(rng, ded, lambda c: interest(st, [c]), p=0.5)
    r = iface_ref(st, cp)
    if r is None:
        return None
    existing = [st.name(c) for c in st.child_cps(cp)]
    pool = W.SUB_NAMES
    if 'subif_name_reuse' in w.avoid:
        pool = ['%s-%s' % (st.name(cp), x) for x in W.SUB_NAMES]
    else:
        # a name already used by a sub-interface under another port of the same node (legal: scopes differ)
        node = st.owner_node_of_cp(cp)
        cousins = [st.name(k) for p2 in (st.node_interfaces(node) if node else []) if p2 != cp for k in st.child_cps(p2)]
        cousins = [c for c in cousins if c not in existing]
        if cousins and rng.random() < 0.6:
            pool = cousins
    s = {'iface': r, 'name': pick_name(rng, pool, existing), 'vlan': str(rng.choice([100, 101, 102, 103])),
         'id': maybe_id(w, rng, st)}
    if rng.random() < 0.35:
        # more label fields than the vlan, and other properties, given at creation (read back afterwards, C02)
        s['xlabels'] = dict(rng.sample([('ipv4', '192.168.1.%d' % rng.randint(1, 9)), ('mac', '0C:42:A1:EA:C7:5%d' % rng.randint(0, 9)),
                                        ('inner_vlan', str(rng.randint(10, 19))), ('device_name', 'dev%d' % rng.randint(1, 3)),
                                        ('ipv6', '2001:db8::%d' % rng.randint(1, 9))], rng.randint(1, 2)))
        if rng.random() < 0.5:
            s['xkw'] = {'capacities': {'_t': 'Capacities', 'a': {'bw': rng.choice([1, 10, 25])}}}
    return s


@op('add_child_interface', 'add')
def x_add_child_interface(w, s, st, info):
    from fim.slivers.capacities_labels import Labels
    i = get_iface_retained(w, s['iface'])
    note_handle(w, info, i, st)
    xl = s.get('xlabels') or {}
    ch = i.add_child_interface(name=s['name'], node_id=s['id'], labels=Labels(vlan=s['vlan'], **xl),
                               **build_ctor_kwargs(s.get('xkw')))
    if ch is not None and (xl or s.get('xkw')):
        check_creation_kwargs(w, ch, s.get('xkw'), 'interface')
        try:
            got = ch.get_property('labels')
            gotd = json.loads(got.to_json()) if got is not None else {}
        except Exception as ex:
            gotd = {'<raised>': repr(ex)}
        for k, v in dict(xl, vlan=s['vlan']).items():
            if gotd.get(k) != v:
                w.flag('C02', 'prop_set_get', {'kind': 'interface', 'name': 'labels', 'via': 'creation', 'field': k},
                       'sub-interface created with label %s=%r reads back labels %s' % (k, v, canon(gotd)[:200]))
                break


@op('peer', 'add')
def g_peer(w, rng, st):
    svcs = [s for s in top_services(st) if st.typ(s) in ('L3VPN', 'FABNetv4', 'FABNetv6', 'L2STS', 'L2Bridge')]
    if len(svcs) < 2:
        return None
    a, b = rng.sample(svcs, 2)
    # a service that already peers becomes a hub with several peerings
    hubs = [x for x in svcs if any(st.typ(p) == 'ServicePort' for c in st.cps_of_service(x) for p in st.peers(c))]
    if hubs and rng.random() < 0.6:
        a = rng.choice(hubs)
        others = [x for x in svcs if x != a and not any(
            st.service_of_cp(p) and st.service_of_cp(p)[0] == a for c in st.cps_of_service(x) for p in st.peers(c))]
        if others:
            b = rng.choice(others)
            if rng.random() < 0.5:
                a, b = b, a
    if a == b:
        return None
    return {'a': st.name(a), 'b': st.name(b)}


@op('peer', 'add')
def x_peer(w, s, st, info):
    a, b = get_service(w, s['a']), get_service(w, s['b'])
    note_handle(w, info, a, st)
    note_handle(w, info, b, st)
    a.peer(b)


# ================================================================ removing calls
def _exists_or_skip(cond):
    if not cond:
        raise SkipStep()


@op('remove_node', 'remove')
def g_remove_node(w, rng, st):
    nodes = [n for n in st.of_class('NetworkNode') if st.typ(n) != 'Facility']
    if not nodes:
        return None
    return {'name': st.name(pick_interesting(rng, nodes, lambda n: interest(st, st.own_node(n))))}


@op('remove_node', 'remove')
def x_remove_node(w, s, st, info):
    ids = [n for n in st.by_name('NetworkNode', s['name']) if st.typ(n) != 'Facility']
    _exists_or_skip(ids)
    info['predict'] = predict_remove_node(st, ids[0])
    w.topo.remove_node(name=s['name'])


@op('remove_facility', 'remove')
def g_remove_facility(w, rng, st):
    nodes = [n for n in st.of_class('NetworkNode') if st.typ(n) == 'Facility']
    if not nodes:
        return None
    return {'name': st.name(rng.choice(nodes))}


@op('remove_facility', 'remove')
def x_remove_facility(w, s, st, info):
    ids = [n for n in st.by_name('NetworkNode', s['name']) if st.typ(n) == 'Facility']
    _exists_or_skip(ids)
    info['predict'] = predict_remove_node(st, ids[0])
    w.topo.remove_facility(name=s['name'])


@op('remove_switch', 'remove')
def g_remove_switch(w, rng, st):
    nodes = [n for n in st.of_class('NetworkNode') if st.typ(n) == 'Switch']
    if not nodes:
        return None
    return {'name': st.name(rng.choice(nodes))}


@op('remove_switch', 'remove')
def x_remove_switch(w, s, st, info):
    ids = [n for n in st.by_name('NetworkNode', s['name']) if st.typ(n) == 'Switch']
    _exists_or_skip(ids)
    info['predict'] = predict_remove_node(st, ids[0])
    w.topo.remove_switch(name=s['name'])


@op('remove_component', 'remove')
def g_remove_component(w, rng, st):
    comps = [(n, c) for n in st.of_class('NetworkNode') for c in st.components_of(n) if st.typ(c) != 'Storage']
    if not comps:
        return None
    n, c = pick_interesting(rng, comps, lambda nc: interest(st, st.own_component(nc[1])))
    return {'node': st.name(n), 'name': st.name(c)}


@op('remove_component', 'remove')
def x_remove_component(w, s, st, info):
    ns = st.by_name('NetworkNode', s['node'])
    _exists_or_skip(ns)
    cs = [c for c in st.components_of(ns[0]) if st.name(c) == s['name']]
    _exists_or_skip(cs)
    info['predict'] = predict_remove_owned(st, st.own_component(cs[0]))
    get_node(w, s['node']).remove_component(name=s['name'])


@op('remove_storage', 'remove')
def g_remove_storage(w, rng, st):
    comps = [(n, c) for n in st.of_class('NetworkNode') for c in st.components_of(n) if st.typ(c) == 'Storage']
    if not comps:
        return None
    n, c = rng.choice(comps)
    return {'node': st.name(n), 'name': st.name(c)}


@op('remove_storage', 'remove')
def x_remove_storage(w, s, st, info):
    ns = st.by_name('NetworkNode', s['node'])
    _exists_or_skip(ns)
    cs = [c for c in st.components_of(ns[0]) if st.name(c) == s['name']]
    _exists_or_skip(cs)
    info['predict'] = predict_remove_owned(st, st.own_component(cs[0]))
    get_node(w, s['node']).remove_storage(name=s['name'])


@op('remove_network_service', 'remove')
def g_remove_network_service(w, rng, st):
    svcs = top_services(st)
    if not svcs:
        return None
    return {'name': st.name(pick_interesting(rng, svcs, lambda x: interest(st, st.own_service(x))))}


@op('remove_network_service', 'remove')
def x_remove_network_service(w, s, st, info):
    ids = [x for x in top_services(st) if st.name(x) == s['name']]
    _exists_or_skip(ids)
    info['predict'] = predict_remove_owned(st, st.own_service(ids[0]), links_of=st.own_service(ids[0]))
    w.topo.remove_network_service(name=s['name'])
    w.handles.pop(s['name'], None)


@op('disconnect_interface', 'remove')
def g_disconnect_interface(w, rng, st):
    cands = []
    for sv in top_services(st):
        for sp in st.cps_of_service(sv):
            for p in st.peers(sp):
                r = iface_ref(st, p)
                if r:
                    cands.append((st.name(sv), r))
    if not cands:
        return None
    sv, r = rng.choice(cands)
    # a service holding two ports of one name first
    for x in top_services(st):
        names = [st.name(c) for c in st.cps_of_service(x)]
        if len(set(names)) != len(names) and rng.random() < 0.7:
            mine = [(a, b) for a, b in cands if a == st.name(x)]
            if mine:
                sv, r = rng.choice(mine)
    return {'svc': sv, 'iface': r}


@op('disconnect_interface', 'remove')
def x_disconnect_interface(w, s, st, info):
    sv = get_service(w, s['svc'])
    i = get_iface(w, s['iface'])
    peers = st.peers(i.node_id)
    mine = [p for p in peers if sv.node_id in st.service_of_cp(p)]
    _exists_or_skip(mine)
    info['predict'] = predict_remove_owned(st, {mine[0]}, links_of={mine[0]})
    note_handle(w, info, sv, st)
    sv.disconnect_interface(i)


@op('remove_child_interface', 'remove')
def g_remove_child_interface(w, rng, st):
    subs = [cp for cp in st.of_class('ConnectionPoint') if st.is_sub(cp)]
    if not subs:
        return None
    cp = rng.choice(subs)
    r = iface_ref(st, cp)
    if not r:
        return None
    return {'iface': {'node': r['node'], 'if': r['if']}, 'name': st.name(cp)}


@op('remove_child_interface', 'remove')
def x_remove_child_interface(w, s, st, info):
    i = get_iface_retained(w, s["iface"])
    kids = [c for c in st.child_cps(i.node_id) if st.name(c) == s['name']]
    _exists_or_skip(kids)
    # a connected sub-interface: its service-side port stays (only the link goes when it is left with one end)
    info['predict'] = predict_remove_owned(st, {kids[0]}, links_of={kids[0]})
    note_handle(w, info, i, st)
    i.remove_child_interface(name=s['name'])


@op('unpeer', 'remove')
def g_unpeer(w, rng, st):
    pairs = []
    for l in st.of_class('Link'):
        cps = st.cps_of_link(l)
        if len(cps) == 2 and all(st.typ(c) == 'ServicePort' for c in cps):
            sa, sb = st.service_of_cp(cps[0]), st.service_of_cp(cps[1])
            if sa and sb and sa[0] != sb[0]:
                pairs.append((sa[0], sb[0]))
    if not pairs:
        return None
    a, b = rng.choice(pairs)
    if rng.random() < 0.5:
        a, b = b, a
    return {'a': st.name(a), 'b': st.name(b)}


@op('unpeer', 'remove')
def x_unpeer(w, s, st, info):
    a, b = get_service(w, s['a']), get_service(w, s['b'])
    # the pair must peer directly: a link whose two ends are service ports of a and of b
    found = None
    for l in st.of_class('Link'):
        cps = st.cps_of_link(l)
        if len(cps) == 2:
            owners = [st.service_of_cp(c)[0] if st.service_of_cp(c) else None for c in cps]
            if sorted(o for o in owners if o) == sorted([a.node_id, b.node_id]) and a.node_id != b.node_id:
                found = (l, cps)
    _exists_or_skip(found)
    # precondition for an unambiguous prediction: the two services peer over exactly one link and have no
    # shorter/other connection
    n_links = 0
    for l in st.of_class('Link'):
        cps = st.cps_of_link(l)
        owners = set(st.service_of_cp(c)[0] for c in cps if st.service_of_cp(c))
        if owners == {a.node_id, b.node_id}:
            n_links += 1
    if n_links != 1:
        raise SkipStep()
    l, cps = found
    info['predict'] = {'removed': set(cps) | {l}}
    note_handle(w, info, a, st)
    note_handle(w, info, b, st)
    a.unpeer(b)


@op('prune', 'remove')
def g_prune(w, rng, st):
    return {'state': rng.choice(['Closed', 'Failed'])}


@op('prune', 'remove')
def x_prune(w, s, st, info):
    # which elements carry a matching reservation state (set through set_property in this history)
    marked = []
    for n, p in st.n.items():
        ri = p.get('ReservationInfo')
        if ri:
            try:
                if json.loads(ri).get('reservation_state') == s['state']:
                    marked.append(n)
            except Exception:
                pass
    info['marked'] = marked
    # not exercised (counted): marked services that are owned by a node/component and have connected ports, or that
    # peer with another service - prune() removes those with the plain graph-level call
    for m in marked:
        if st.cls(m) == 'NetworkService':
            ports = st.cps_of_service(m)
            if st.owner_of_service(m) and any(st.links_of_cp(c) or any(st.links_of_cp(k) for k in st.child_cps(c))
                                              for c in ports):
                w.stats.inc('probe.prune.skipped_owned_service_with_connections')
                raise SkipStep()
            if any(st.typ(p) == 'ServicePort' for c in ports for p in st.peers(c)):
                w.stats.inc('probe.prune.skipped_peered_service')
                raise SkipStep()
        if st.cls(m) == 'NetworkNode' and st.typ(m) == 'Facility':
            w.stats.inc('probe.prune.facility_marked')
    info['predict'] = predict_prune(st, marked)
    w.topo.prune(reservation_state=s['state'])
    w.handles.clear()


# ---------------------------------------------------------------- substrate-flavour calls
@op('node_add_network_service', 'add')
def g_node_add_network_service(w, rng, st):
    nodes = st.of_class('NetworkNode')
    if not nodes:
        return None
    n = rng.choice(nodes)
    existing = [st.name(x) for x in st.services_of(n)]
    pool = ['ns1', 'ns2']
    if 'node_service_name_reuse' in w.avoid:
        pool = ['%s-ns1' % st.name(n), '%s-ns2' % st.name(n)]
    return {'node': st.name(n), 'name': pick_name(rng, pool, existing),
            'nstype': rng.choice(['MPLS', 'VLAN', 'OVS', 'P4']), 'id': w.new_id(rng),
            'kw': gen_good_kwargs(rng, 'service') if rng.random() < 0.4 else {}}


@op('node_add_network_service', 'add')
def x_node_add_network_service(w, s, st, info):
    from fim.slivers.network_service import ServiceType
    ns = get_node(w, s['node']).add_network_service(name=s['name'], node_id=s['id'], nstype=ServiceType[s['nstype']],
                                                    **build_ctor_kwargs(s.get('kw')))
    check_creation_kwargs(w, ns, s.get('kw'), 'service')


def node_services(st):
    return [(n, x) for n in st.of_class('NetworkNode') for x in st.services_of(n)]


@op('svc_add_interface', 'add')
def g_svc_add_interface(w, rng, st):
    ns = node_services(st)
    if not ns:
        return None
    n, x = rng.choice(ns)
    existing = [st.name(c) for c in st.cps_of_service(x)]
    pool = ['tp1', 'tp2', 'tp3']
    if 'node_interface_name_reuse' in w.avoid:
        pool = ['%s-%s' % (st.name(x), t) for t in pool]
    return {'node': st.name(n), 'svc': st.name(x), 'name': pick_name(rng, pool, existing),
            'itype': rng.choice(['TrunkPort', 'AccessPort', 'DedicatedPort']), 'id': w.new_id(rng),
            'kw': gen_good_kwargs(rng, 'iface')}


@op('svc_add_interface', 'add')
def x_svc_add_interface(w, s, st, info):
    from fim.slivers.interface_info import InterfaceType
    sv = get_node_service_retained(w, s['node'], s['svc'])
    note_handle(w, info, sv, st)
    i = sv.add_interface(name=s['name'], node_id=s['id'], itype=InterfaceType[s['itype']], **build_ctor_kwargs(s['kw']))
    if i is not None and s.get('op') != 'failing':
        check_creation_kwargs(w, i, s['kw'], 'interface')


@op('add_link', 'add')
def g_add_link(w, rng, st):
    cands = [(a, b, cp) for a, b, cp in all_ifaces(st) if st.typ(cp) != 'ServicePort']
    if len(cands) < 2:
        return None
    k = rng.choice([2, 2, 3, 3])
    rng.shuffle(cands)
    # ports that carry sub-interfaces first: removing their owner later exercises the shared-link rule
    cands.sort(key=lambda c: 0 if st.child_cps(c[2]) else 1)
    existing = [st.name(l) for l in st.of_class('Link')]
    return {'name': pick_name(rng, ['l1', 'l2', 'l3', 'l4'], existing), 'ltype': rng.choice(['L2Path', 'Patch', 'L1Path']),
            'ifs': [{'node': a, 'if': b} for a, b, _ in cands[:k]], 'id': w.new_id(rng)}


@op('add_link', 'add')
def x_add_link(w, s, st, info):
    from fim.slivers.network_link import LinkType
    ifs = [get_iface(w, r) for r in s['ifs']]
    w.topo.add_link(name=s['name'], node_id=s['id'], ltype=LinkType[s['ltype']], interfaces=ifs)


@op('remove_link', 'remove')
def g_remove_link(w, rng, st):
    # only links that are not the peering artefact of a service port (see DESIGN: removing those by hand is
    # outside the documented use and leaves a port without a peer by construction)
    ls = [l for l in st.of_class('Link') if not any(st.typ(c) == 'ServicePort' for c in st.cps_of_link(l))]
    if not ls:
        return None
    return {'name': st.name(rng.choice(ls))}


@op('remove_link', 'remove')
def x_remove_link(w, s, st, info):
    ids = st.by_name('Link', s['name'])
    _exists_or_skip(ids)
    if any(st.typ(c) == 'ServicePort' for c in st.cps_of_link(ids[0])):
        raise SkipStep()
    info['predict'] = {'removed': {ids[0]}}
    w.topo.remove_link(name=s['name'])


@op('svc_remove_interface', 'remove')
def g_svc_remove_interface(w, rng, st):
    c = [(n, x, cp) for n, x in node_services(st) for cp in st.cps_of_service(x)]
    if not c:
        return None
    n, x, cp = pick_interesting(rng, c, lambda t: interest(st, st.own_cp(t[2])))
    return {'node': st.name(n), 'svc': st.name(x), 'name': st.name(cp)}


@op('svc_remove_interface', 'remove')
def x_svc_remove_interface(w, s, st, info):
    sv = get_node_service_retained(w, s['node'], s['svc'])
    cps = [c for c in st.cps_of_service(sv.node_id) if st.name(c) == s['name']]
    _exists_or_skip(cps)
    info['predict'] = predict_remove_owned(st, st.own_cp(cps[0]), links_of=st.own_cp(cps[0]))
    note_handle(w, info, sv, st)
    sv.remove_interface(name=s['name'])


@op('node_remove_network_service', 'remove')
def g_node_remove_network_service(w, rng, st):
    ns = node_services(st)
    if not ns:
        return None
    n, x = pick_interesting(rng, ns, lambda nx_: interest(st, st.own_service(nx_[1])))
    return {'node': st.name(n), 'name': st.name(x)}


@op('node_remove_network_service', 'remove')
def x_node_remove_network_service(w, s, st, info):
    n = get_node(w, s['node'])
    xs = [x for x in st.services_of(n.node_id) if st.name(x) == s['name']]
    _exists_or_skip(xs)
    info['predict'] = predict_remove_owned(st, st.own_service(xs[0]), links_of=st.own_service(xs[0]))
    n.remove_network_service(name=s['name'])


# ================================================================ C08 prediction
def link_fate(st, removed_cps):
    """links to delete: those touching a removed interface that are left with fewer than two ends"""
    gone = set()
    for l in st.of_class('Link'):
        ends = st.cps_of_link(l)
        if any(e in removed_cps for e in ends):
            left = [e for e in ends if e not in removed_cps]
            if len(left) < 2:
                gone.add(l)
    return gone


def predict_remove_owned(st, owned, links_of=None):
    """
    owned: ids deleted outright.  Peering artefacts: for every node-side interface among them that is connected to a
    service, the service-side port and the link go too.  Links touching a deleted interface go when left with < 2 ends.
    """
    removed = set(owned)
    cps = [x for x in removed if st.cls(x) == 'ConnectionPoint']
    # peering artefacts created for the removed node-side interfaces
    for cp in list(cps):
        for p in st.peers(cp):
            if st.typ(p) == 'ServicePort' and p not in removed:
                # a service port facing a removed interface (node-side interface, or the port of a peering
                # service) exists only for it
                if set(st.peers(p)) <= removed:
                    removed.add(p)
    cps = set(x for x in removed if st.cls(x) == 'ConnectionPoint')
    removed |= link_fate(st, cps)
    return {'removed': removed}


def predict_remove_node(st, node):
    return predict_remove_owned(st, st.own_node(node))


def predict_prune(st, marked):
    removed = set()
    for m in marked:
        c = st.cls(m)
        if c == 'NetworkNode' and st.typ(m) != 'Facility':
            removed |= predict_remove_node(st, m)['removed']
        elif c == 'Component':
            removed |= predict_remove_owned(st, st.own_component(m))['removed']
        elif c == 'NetworkService':
            removed |= predict_remove_owned(st, st.own_service(m))['removed']
        elif c == 'ConnectionPoint':
            removed |= predict_remove_owned(st, st.own_cp(m))['removed']
    return {'removed': removed, 'loose': True}


def check_removal(w, s, info, pre, st, post, post_st):
    op_ = s['op']
    if info['outcome'] != 'ok':
        if 'predict' in info:
            # the element existed and the call was applicable: a removal that raises did not delete it
            w.flag('C08', 'remove_exact', {'op': op_, 'symptom': 'raised', 'exc': info['outcome'][4:]},
                   '%s of an existing element raised %s: %s; step=%s' % (op_, info['outcome'][4:], info.get('msg'),
                                                                       canon(s)[:300]))
        return
    pred = info.get('predict')
    if pred is None:
        return
    removed = pred['removed']
    exp_nodes = {k: v for k, v in pre['nodes'].items() if k not in removed}
    exp_edges = {k: v for k, v in pre['edges'].items() if not any(x in removed for x in k.split('~'))}
    expected = {'nodes': exp_nodes, 'edges': exp_edges}
    if canon(expected) != canon(post):
        still = sorted(st.name(x) for x in removed if x in post['nodes'])
        extra = sorted(str(st.name(x)) for x in pre['nodes'] if x not in removed and x not in post['nodes'])
        if extra or any(canon(post['nodes'].get(k)) != canon(v) for k, v in exp_nodes.items()) or \
                sorted(k for k in exp_edges if k not in post['edges']):
            oracle, sym = 'remove_frame', 'collateral'
        else:
            oracle, sym = 'remove_exact', 'left_behind'
        w.flag('C08', oracle, {'op': op_, 'symptom': sym},
               '%s: expected exactly %s to go; left behind: %s; wrongly removed: %s; diff vs prediction: %s; step=%s' %
               (op_, sorted(str(st.name(x)) for x in removed), still, extra, state_diff(post, expected, 'real', 'predicted'),
                canon(s)[:300]))
    check_handles(w, s, info, post, post_st)


def check_handles(w, s, info, post, post_st):
    """handle clause: the handles the call went through report what a fresh lookup reports"""
    op_ = s['op']
    if info['outcome'] != 'ok':
        return
    for h in info.get('handles', []):
        try:
            if h.node_id not in post['nodes']:
                continue
            got = sorted(i.node_id for i in h.interface_list)
            want = sorted(post_st.cps_of_service(h.node_id)) if post_st.cls(h.node_id) == 'NetworkService' else \
                sorted(post_st.child_cps(h.node_id))
            if got != want and KIND.get(op_) != 'remove':
                # C08 states the handle clause for removals; after a building call the handle's interface list is one
                # of the read-only views, which list exactly the elements present in the model (C07)
                w.flag('C07', 'views_exact', {'op': op_, 'view': 'handle.interface_list'},
                       'after %s the interface list of the handle of %s (through which the call was made) reports %s, '
                       'the model holds %s' % (op_, h.name, [post_st.name(i) if i in post_st.n else i for i in got],
                                               [post_st.name(i) for i in want]))
            elif got != want:
                w.flag('C08', 'handle_fresh_equal', {'op': op_},
                       'after %s the handle of %s reports interfaces %s, a fresh lookup reports %s' %
                       (op_, h.name, [post_st.name(i) if i in post_st.n else i for i in got],
                        [post_st.name(i) for i in want]))
        except Exception as e:
            w.flag('C08', 'handle_fresh_equal', {'op': op_, 'symptom': 'raises'},
                   'after %s reading the interfaces of the handle of %s raised %r' % (op_, h.name, e))


# ================================================================ read-only views cannot modify the model (C07)
@op('views_readonly', 'read')
def g_views_readonly(w, rng, st):
    return {'which': rng.choice(['nodes', 'links', 'network_services', 'facilities', 'interface_list', 'node'])}


@op('views_readonly', 'read')
def x_views_readonly(w, s, st, info):
    t = w.topo
    which = s['which']
    if which == 'node':
        ns = list(t.nodes.values())
        if not ns:
            raise SkipStep()
        n = ns[0]
        views = [n.components, n.interfaces, n.direct_interfaces, n.network_services, n.interface_list]
    else:
        views = [getattr(t, which)]
    for v in views:
        before = list(v) if not hasattr(v, 'keys') else sorted(v.keys())
        attempts = []
        for name, fn in (('setitem', lambda: v.__setitem__('zz', 1)), ('delitem', lambda: v.__delitem__(before[0] if before else 'zz')),
                         ('update', lambda: v.update({'zz': 1})), ('pop', lambda: v.pop(before[0] if before else 'zz')),
                         ('clear', lambda: v.clear()), ('append', lambda: v.append(1)),
                         ('setdefault', lambda: v.setdefault('zz', 1))):
            try:
                fn()
                attempts.append(name)
            except Exception:
                pass
        after = list(v) if not hasattr(v, 'keys') else sorted(v.keys())
        if attempts and canon(before) != canon(after):
            w.flag('C07', 'views_readonly', {'view': which, 'via': ','.join(attempts)},
                   'the %s view accepted %s and now lists %s instead of %s' % (which, attempts, after, before))


# ================================================================ rename
@op('rename', 'add')
def g_rename(w, rng, st):
    kinds = [('node', st.of_class('NetworkNode')), ('service', top_services(st)), ('component', st.of_class('Component'))]
    kinds = [(k, v) for k, v in kinds if v]
    if not kinds:
        return None
    k, ids = rng.choice(kinds)
    if 'node_service_name_reuse' in w.avoid:
        # names of owned services/interfaces are derived from the owner's name at creation time; renaming the owner
        # and re-using its old name re-creates those derived names (known finding on the name-keyed views)
        if k == 'node':
            ids = [i for i in ids if not st.components_of(i) and not st.services_of(i)]
        elif k == 'component':
            ids = [i for i in ids if not st.services_of(i)]
        if not ids:
            return None
    x = rng.choice(ids)
    pool = {'node': W.NODE_NAMES + W.FAC_NAMES, 'service': W.SVC_NAMES, 'component': W.COMP_NAMES}[k]
    if k == 'node':
        scope = [st.name(i) for i in st.of_class('NetworkNode')]
    elif k == 'service':
        scope = [st.name(i) for i in top_services(st)]
    else:
        owner = st.node_of_component(x)
        scope = [st.name(i) for i in st.components_of(owner[0])] if owner else []
    fresh = [p for p in pool if p not in scope] + ['renamed-%d' % w.steps_done]
    new = rng.choice(fresh)
    if 'rename_duplicate' not in w.avoid and rng.random() < 0.3 and scope:
        new = rng.choice(scope)
    if rng.random() < 0.1:
        new = 'x'      # violates every NAME_REGEX (too short): must be rejected and change nothing
    s = {'kind': k, 'new': new}
    if k == 'component':
        owner = st.node_of_component(x)
        if not owner:
            return None
        s.update(node=st.name(owner[0]), name=st.name(x))
    else:
        s.update(name=st.name(x))
    return s


@op('rename', 'add')
def x_rename(w, s, st, info):
    if s['kind'] == 'node':
        e = get_node(w, s['name'])
    elif s['kind'] == 'service':
        e = get_service(w, s['name'], fresh=True)
        w.handles.pop(s['name'], None)
    else:
        e = get_node(w, s['node']).components.get(s['name'])
        _exists_or_skip(e is not None)
    e.rename(s['new'])


# ================================================================ C09: failing-call templates
# Each template yields complete steps {'template':..., 'pos':..., 'call':..., args} for the current state; the call
# is expected to be rejected.  If it is accepted instead that is only counted (no listed property promises rejection);
# if it raises, the generic C09 oracle in exec_step demands an unchanged model.
def failing_variants(w, rng, st):
    out = []
    nodes = st.of_class('NetworkNode')
    names = [st.name(n) for n in nodes]
    fresh_node = next((x for x in W.NODE_NAMES + ['n6', 'n7'] if x not in names), 'n8')
    sub = w.cfg['flavour'] == 'substrate'
    nid = lambda: w.new_id(rng)
    anyid = sorted(st.n.keys())
    vmnodes = [n for n in nodes if st.typ(n) in ('VM', 'Server', 'Container')]

    # ---- nodes
    if names:
        out.append({'template': 'dup_node_name', 'call': 'add_node', 'name': rng.choice(names), 'site': 'RENC',
                    'ntype': 'VM', 'id': nid() if sub else None, 'kw': {}})
    if anyid:
        for target in sorted(set(st.cls(i) for i in anyid)):
            i = rng.choice([x for x in anyid if st.cls(x) == target])
            out.append({'template': 'dup_node_id', 'pos': target, 'call': 'add_node', 'name': fresh_node, 'site': 'RENC',
                        'ntype': 'VM', 'id': i, 'kw': {}})
    out.append({'template': 'bad_node_name', 'call': 'add_node', 'name': 'x', 'site': 'RENC', 'ntype': 'VM',
                'id': nid() if sub else None, 'kw': {}})
    good = [('capacities', {'_t': 'Capacities', 'a': {'core': 2}}), ('details', 'd'),
            ('labels', {'_t': 'Labels', 'a': {'instance_parent': 'w1'}})]
    for bi, (bk, bv) in enumerate(BAD_KWARGS):
        for pos in range(3):
            kw = {}
            items = good[:pos] + [(bk, bv)] + good[pos:]
            for k, v in items:
                kw[k] = v
            if bi % 2 == pos % 2 or pos == 2:     # a spread of (bad kind x position), not the full product
                out.append({'template': 'bad_node_kwarg', 'pos': '%s@%d' % (bk, pos), 'call': 'add_node',
                            'name': fresh_node, 'site': 'RENC', 'ntype': 'VM', 'id': nid() if sub else None, 'kw': kw,
                            'kworder': [k for k, _ in items]})
    if sub:
        out.append({'template': 'substrate_no_id', 'call': 'add_node', 'name': fresh_node, 'site': 'RENC',
                    'ntype': 'Server', 'id': None, 'kw': {}})
    # ---- components
    for n in vmnodes[:2]:
        comps = st.components_of(n)
        if comps:
            out.append({'template': 'dup_component_name', 'call': 'add_component', 'node': st.name(n),
                        'name': st.name(rng.choice(comps)), 'model': 'GPU_Tesla_T4', 'id': nid() if sub else None,
                        'nsid': 'u1', 'ifids': ['u2', 'u3']})
        out.append({'template': 'unknown_component_model', 'call': 'add_component_tm', 'node': st.name(n),
                    'name': 'cX', 'ctype': 'GPU', 'model': 'NoSuchModel', 'id': nid() if sub else None})
        out.append({'template': 'component_type_model_mismatch', 'call': 'add_component_tm', 'node': st.name(n),
                    'name': 'cX', 'ctype': 'SmartNIC', 'model': 'Tesla T4', 'id': nid() if sub else None})
        out.append({'template': 'bad_component_kwarg', 'call': 'add_component', 'node': st.name(n), 'name': 'cX',
                    'model': 'SmartNIC_ConnectX_6', 'id': nid() if sub else None, 'kw': {'labels': 12},
                    'nsid': nid(), 'ifids': [nid(), nid()]})
        if anyid:
            # an id in use by an element of each class in turn (a component whose interface is connected first)
            for target in sorted(set(st.cls(i) for i in anyid)):
                cands = [x for x in anyid if st.cls(x) == target]
                if target == 'Component':
                    hot = [c for c in cands if any(st.links_of_cp(cp) for cp in st.component_interfaces(c))]
                    cands = hot or cands
                out.append({'template': 'dup_component_id', 'pos': target, 'call': 'add_component', 'node': st.name(n),
                            'name': 'cX', 'model': 'SmartNIC_ConnectX_5', 'id': rng.choice(cands), 'nsid': nid(),
                            'ifids': [nid(), nid()]})
        if sub and anyid:
            for pos in (0, 1):
                ifids = [nid(), nid()]
                ifids[pos] = rng.choice(anyid)
                out.append({'template': 'component_interface_id_taken', 'pos': str(pos), 'call': 'add_component',
                            'node': st.name(n), 'name': 'cX', 'model': 'SmartNIC_ConnectX_6', 'id': nid(), 'nsid': nid(),
                            'ifids': ifids, 'kw': {}})
            out.append({'template': 'component_service_id_taken', 'call': 'add_component', 'node': st.name(n),
                        'name': 'cX', 'model': 'SmartNIC_ConnectX_6', 'id': nid(), 'nsid': rng.choice(anyid),
                        'ifids': [nid(), nid()], 'kw': {}})
        if sub:
            out.append({'template': 'storage_on_substrate', 'call': 'add_storage', 'node': st.name(n), 'name': 'vol9',
                        'id': nid()})
    if sub:
        links = st.of_class('Link')
        cands = [(a, b, cp) for a, b, cp in all_ifaces(st) if st.typ(cp) != 'ServicePort']
        two = [{'node': a, 'if': b} for a, b, _ in cands[:2]]
        if links and len(two) == 2:
            out.append({'template': 'dup_link_name', 'call': 'add_link', 'name': st.name(rng.choice(links)),
                        'ltype': 'L2Path', 'ifs': two, 'id': nid()})
        out.append({'template': 'link_without_interfaces', 'call': 'add_link', 'name': 'lX', 'ltype': 'L2Path',
                    'ifs': [], 'id': nid()})
        if len(two) == 2 and anyid:
            out.append({'template': 'dup_link_id', 'call': 'add_link', 'name': 'lX', 'ltype': 'Patch', 'ifs': two,
                        'id': rng.choice(anyid)})
        if two:
            for pos in (0, 1):
                ifs = [two[0]]
                ifs.insert(pos, {'raw': 'not-an-interface'})
                out.append({'template': 'link_non_interface', 'pos': str(pos), 'call': 'add_link', 'name': 'lX',
                            'ltype': 'Patch', 'ifs': ifs, 'id': nid()})
                if w.bystander is not None:
                    ifs = [two[0]]
                    ifs.insert(pos, {'foreign': True})
                    out.append({'template': 'link_foreign_interface', 'pos': str(pos), 'call': 'add_link', 'name': 'lX',
                                'ltype': 'Patch', 'ifs': ifs, 'id': nid()})
        for n, x in node_services(st)[:2]:
            cps = st.cps_of_service(x)
            if cps:
                out.append({'template': 'dup_interface_name', 'call': 'svc_add_interface', 'node': st.name(n),
                            'svc': st.name(x), 'name': st.name(rng.choice(cps)), 'itype': 'TrunkPort', 'id': nid(),
                            'kw': {}})
            out.append({'template': 'bad_interface_kwarg', 'call': 'svc_add_interface', 'node': st.name(n),
                        'svc': st.name(x), 'name': 'tpX', 'itype': 'TrunkPort', 'id': nid(), 'kw': {'capacities': 'x'}})
            if anyid:
                out.append({'template': 'dup_interface_id', 'call': 'svc_add_interface', 'node': st.name(n),
                            'svc': st.name(x), 'name': 'tpX', 'itype': 'TrunkPort', 'id': rng.choice(anyid), 'kw': {}})
            out.append({'template': 'dup_node_service_name', 'call': 'node_add_network_service', 'node': st.name(n),
                        'name': st.name(x), 'nstype': 'MPLS', 'id': nid()})
        return out
    # ---- services (experiment flavour)
    tops = top_services(st)
    topnames = [st.name(x) for x in tops]
    fresh_svc = next((x for x in W.SVC_NAMES + ['s6', 's7'] if x not in topnames), 's8')
    free = free_ifaces(st)
    conn = all_ifaces(st, connected=True)
    shared_free = [f for f in free if st.typ(f[2]) == 'SharedPort']
    svcports = [cp for x in tops for cp in st.cps_of_service(x)]
    if topnames:
        out.append({'template': 'dup_service_name', 'call': 'add_network_service', 'name': rng.choice(topnames),
                    'nstype': 'L2Bridge', 'ifs': [{'node': a, 'if': b} for a, b, _ in free[:1]], 'id': None, 'kw': {}})
    if anyid:
        out.append({'template': 'dup_service_id', 'call': 'add_network_service', 'name': fresh_svc, 'nstype': 'L2Bridge',
                    'ifs': [{'node': a, 'if': b} for a, b, _ in free[:2]], 'id': rng.choice(anyid), 'kw': {}})
    out.append({'template': 'bad_service_kwarg', 'call': 'add_network_service', 'name': fresh_svc, 'nstype': 'L2STS',
                'ifs': [{'node': a, 'if': b} for a, b, _ in free[:2]], 'id': None, 'kw': {'labels': 12}})
    # the i-th of n interfaces is the bad one, for every i
    bads = []
    if conn:
        a, b, _ = rng.choice(conn)
        bads.append(('connected', {'node': a, 'if': b}, 'L2Bridge'))
    if shared_free:
        a, b, _ = rng.choice(shared_free)
        bads.append(('shared_on_l2ptp', {'node': a, 'if': b}, 'L2PTP'))
    if svcports:
        cp = rng.choice(svcports)
        bads.append(('service_port', {'svcport': st.name(st.service_of_cp(cp)[0]), 'if': st.name(cp)}, 'L2Bridge'))
    # rejected for reasons other than a topology rule: not an interface at all, an interface of another model
    bads.append(('not_an_interface', {'raw': rng.choice(['not-an-interface', 12])}, 'L2Bridge'))
    if w.bystander is not None:
        bads.append(('foreign_interface', {'foreign': True}, 'L2Bridge'))
    for why, badref, nstype in bads:
        goods = [{'node': a, 'if': b} for a, b, c in free if {'node': a, 'if': b} != badref and
                 not (nstype == 'L2PTP' and st.typ(c) == 'SharedPort')]
        for n in (1, 2, 3):
            if len(goods) < n - 1:
                continue
            for i in range(n):
                ifs = goods[:n - 1]
                ifs = ifs[:i] + [badref] + ifs[i:]
                out.append({'template': 'service_bad_interface', 'pos': '%s:%d/%d' % (why, i, n),
                            'call': 'add_network_service', 'name': fresh_svc, 'nstype': nstype, 'ifs': ifs, 'id': None,
                            'kw': {}})
    if tops:
        out.append({'template': 'connect_non_interface', 'call': 'connect_interface', 'svc': st.name(rng.choice(tops)),
                    'iface': {'raw': 'not-an-interface'}})
        if w.bystander is not None:
            out.append({'template': 'connect_foreign_interface', 'call': 'connect_interface',
                        'svc': st.name(rng.choice(tops)), 'iface': {'foreign': True}})
    if conn:
        a, b, _ = rng.choice(conn)
        out.append({'template': 'mirror_to_connected', 'call': 'add_port_mirror_service', 'name': fresh_svc,
                    'to': {'node': a, 'if': b}, 'from': 'p1', 'vlan': None, 'dir': 'Both', 'id': None})
        if tops:
            out.append({'template': 'connect_connected', 'call': 'connect_interface', 'svc': st.name(rng.choice(tops)),
                        'iface': {'node': a, 'if': b}})
    # connect_interface() refused by the connect-time guard rail on a service that already exists (the same refusal
    # inside add_network_service is covered above, where the constructor's own rollback would hide a stray port)
    if shared_free and not sub:
        a, b, _ = rng.choice(shared_free)
        ptp = [x for x in tops if st.typ(x) == 'L2PTP']
        if ptp:
            out.append({'template': 'connect_shared_to_l2ptp', 'pos': 'existing', 'call': 'connect_interface',
                        'svc': st.name(rng.choice(ptp)), 'iface': {'node': a, 'if': b}})
        else:
            out.append({'template': 'connect_shared_to_l2ptp', 'pos': 'fresh', 'call': 'connect_interface',
                        'svc': fresh_svc, 'iface': {'node': a, 'if': b},
                        'setup': {'op': 'add_network_service', 'name': fresh_svc, 'nstype': 'L2PTP', 'ifs': [], 'id': None,
                                  'kw': {}}})
    # ---- facility / switch
    if names:
        out.append({'template': 'dup_facility_name', 'call': 'add_facility', 'name': rng.choice(names), 'site': 'UKY',
                    'id': None})
        out.append({'template': 'dup_switch_name', 'call': 'add_switch', 'name': rng.choice(names), 'site': 'UKY',
                    'id': None, 'nports': 2})
    out.append({'template': 'facility_bad_kwarg', 'call': 'add_facility', 'name': 'fac9', 'site': 'UKY', 'id': None,
                'kw': {'labels': 12}})
    # the rejected argument belongs to a LATER construction step of the compound call (service, k-th port): the node
    # and whatever was built before that step must be gone again. Derived ids ('<id>-ns', '<id>-int<k>') are made
    # to collide by a set-up step that first stores a node under exactly that id.
    fresh_fac = pick_name(rng, ['fac8', 'fac9', 'facA'], names, 1.0)
    fresh_sw = pick_name(rng, ['sw8', 'sw9', 'swA'], names, 1.0)

    def taken(suffix):
        base = w.new_id(rng)
        return base, {'op': 'add_node', 'name': 'aux-' + base, 'site': 'UKY', 'ntype': 'VM', 'id': base + suffix, 'kw': {}}
    for tname, kw in (('switch_bad_nslabels', {'nslabels': 12}), ('switch_bad_nstype', {'nstype_none': True}),
                      ('switch_bad_portlabels', {'portlabels': 12}), ('switch_bad_portcapacities', {'portcapacities': 'x'})):
        out.append({'template': tname, 'call': 'add_switch', 'name': fresh_sw, 'site': 'UKY', 'id': None,
                    'nports': 2, 'xkw': kw})
    for suffix, pos in (('-ns', 'service'), ('-int1', 'port1/3'), ('-int2', 'port2/3'), ('-int3', 'port3/3')):
        base, setup = taken(suffix)
        out.append({'template': 'switch_derived_id_taken', 'pos': pos, 'call': 'add_switch', 'name': fresh_sw,
                    'site': 'UKY', 'id': base, 'nports': 3, 'setup': setup})
    for tname, kw in (('facility_bad_nslabels', {'nslabels': 12}), ('facility_bad_nstype', {'nstype_none': True})):
        out.append({'template': tname, 'call': 'add_facility', 'name': fresh_fac, 'site': 'UKY', 'id': None, 'kw': {},
                    'xkw': kw})
    for suffix, pos in (('-ns', 'service'), ('-int', 'interface')):
        base, setup = taken(suffix)
        out.append({'template': 'facility_derived_id_taken', 'pos': pos, 'call': 'add_facility', 'name': fresh_fac,
                    'site': 'UKY', 'id': base, 'kw': {}, 'setup': setup})
    for k in range(3):
        base, setup = taken('-int%d' % k)
        out.append({'template': 'facility_derived_id_taken', 'pos': 'tuple%d/3' % k, 'call': 'add_facility',
                    'name': fresh_fac, 'site': 'UKY', 'id': base, 'setup': setup,
                    'tuples': [['%s-i%d' % (fresh_fac, i), {'vlan': str(100 + i)}, {'bw': 10}] for i in range(3)]})
    for k in range(3):
        tl = [['%s-i%d' % (fresh_fac, i), {'vlan': str(100 + i)}, {'bw': 10}] for i in range(3)]
        tl[k][1] = 12          # labels of the k-th interface tuple are not Labels
        out.append({'template': 'facility_bad_tuple', 'pos': '%d/3' % k, 'call': 'add_facility', 'name': fresh_fac,
                    'site': 'UKY', 'id': None, 'tuples': tl})
    # ---- sub-interfaces
    ded = [cp for n in nodes for cp in st.node_interfaces(n) if st.typ(cp) == 'DedicatedPort']
    if ded:
        cp = rng.choice(ded)
        r = iface_ref(st, cp)
        if r:
            out.append({'template': 'subif_no_vlan', 'call': 'add_child_interface', 'iface': r, 'name': 'subX',
                        'vlan': None, 'id': None})
            kids = st.child_cps(cp)
            if kids:
                k = rng.choice(kids)
                lab = jprop_(st.n[k], 'Labels') or {}
                out.append({'template': 'subif_dup_name', 'call': 'add_child_interface', 'iface': r, 'name': st.name(k),
                            'vlan': '999', 'id': None})
                if lab.get('vlan'):
                    out.append({'template': 'subif_dup_vlan', 'call': 'add_child_interface', 'iface': r, 'name': 'subX',
                                'vlan': lab['vlan'], 'id': None})
            if anyid:
                out.append({'template': 'subif_dup_id', 'call': 'add_child_interface', 'iface': r, 'name': 'subX',
                            'vlan': '998', 'id': rng.choice(anyid)})
    nonded = [cp for n in nodes for cp in st.node_interfaces(n) if st.typ(cp) == 'SharedPort']
    if nonded:
        r = iface_ref(st, rng.choice(nonded))
        if r:
            out.append({'template': 'subif_on_shared_port', 'call': 'add_child_interface', 'iface': r, 'name': 'subX',
                        'vlan': '997', 'id': None})
    # ---- property writes that are rejected half way: set_properties(good, BAD, good) on every element kind
    from .w2_props import element_targets
    seen_kinds = set()
    for kind, ref, xid in element_targets(st):
        if kind in seen_kinds:
            continue
        seen_kinds.add(kind)
        goods = [('details', 'fresh details'), ('capacities', {'_t': 'Capacities', 'a': {'bw': 3}})]
        for bk, bv in (('labels', 12), ('no_such_property', 1)):
            for pos in range(3):
                items = goods[:pos] + [(bk, bv)] + goods[pos:]
                out.append({'template': 'set_properties_bad', 'pos': '%s:%s@%d' % (kind, bk, pos), 'call': 'set_properties_raw',
                            'kind': kind, 'ref': ref, 'vals': {k: v for k, v in items}, 'order': [k for k, _ in items]})
        out.append({'template': 'set_property_bad', 'pos': kind, 'call': 'set_properties_raw', 'kind': kind, 'ref': ref,
                    'vals': {'labels': 12}, 'order': ['labels'], 'single': True})
    # ---- calls through the object of an element that is no longer in the model (removed through another object):
    # they are refused, and like every refused call they leave nothing behind. The template creates the element,
    # keeps its object, removes the element and then calls through the kept object.
    host = [n for n in nodes if st.typ(n) in ('VM', 'Server')]
    if host:
        hn = st.name(rng.choice(host))
        for what in ('service_add_interface', 'port_add_child', 'node_add_component', 'node_add_service',
                     'component_object'):
            out.append({'template': 'stale_object', 'pos': what, 'call': 'stale', 'what': what, 'node': hn,
                        'ids': [nid(), nid(), nid(), nid(), nid(), nid()]})
    # ---- peering / removal of absent things
    peerable = [x for x in tops if st.typ(x) in ('L3VPN', 'FABNetv4', 'FABNetv6', 'L2STS', 'L2Bridge')]
    if peerable:
        x = st.name(rng.choice(peerable))
        out.append({'template': 'peer_with_itself', 'call': 'peer', 'a': x, 'b': x})
    if len(tops) >= 2:
        a, b = rng.sample(tops, 2)
        out.append({'template': 'unpeer_not_peered', 'call': 'unpeer', 'a': st.name(a), 'b': st.name(b)})
        # peering two services that already peer (either direction): the second port's name is taken
        for l in st.of_class('Link'):
            cps = st.cps_of_link(l)
            if len(cps) == 2 and all(st.typ(c) == 'ServicePort' for c in cps):
                sa, sb = st.service_of_cp(cps[0]), st.service_of_cp(cps[1])
                if sa and sb and sa[0] != sb[0]:
                    out.append({'template': 'peer_already_peered', 'pos': 'same', 'call': 'peer', 'a': st.name(sa[0]),
                                'b': st.name(sb[0])})
                    out.append({'template': 'peer_already_peered', 'pos': 'reverse', 'call': 'peer', 'a': st.name(sb[0]),
                                'b': st.name(sa[0])})
                    break
    out.append({'template': 'remove_absent_node', 'call': 'remove_node', 'name': 'nope'})
    out.append({'template': 'remove_absent_service', 'call': 'remove_network_service', 'name': 'nope'})
    if vmnodes:
        out.append({'template': 'remove_absent_component', 'call': 'remove_component',
                    'node': st.name(rng.choice(vmnodes)), 'name': 'nope'})
    if names:
        nf = [n for n in nodes if st.typ(n) != 'Facility']
        if nf:
            out.append({'template': 'remove_facility_not_facility', 'call': 'remove_facility',
                        'name': st.name(rng.choice(nf))})
    return out


def jprop_(props, name):
    from .struct import jprop
    return jprop(props, name)


def special_ref(r):
    return isinstance(r, dict) and ('svcport' in r or 'raw' in r or 'foreign' in r)


def resolve_ref(w, r):
    if 'svcport' in r:
        sv = get_service(w, r['svcport'], fresh=True)
        cand = [i for i in sv.interface_list if i.name == r['if']]
        if not cand:
            raise SkipStep()
        return cand[0]
    if 'raw' in r:
        return r['raw']
    if 'foreign' in r:
        if w.bystander is None:
            raise SkipStep()
        return w.bystander.nodes['bystander'].components['nic1'].interface_list[0]
    return get_iface(w, r)


@op('failing', 'add')
def g_failing(w, rng, st):
    vs = failing_variants(w, rng, st)
    if not vs:
        return None
    def expand(v):
        # a template with a set-up step (an ordinary, succeeding call that creates the collision) runs it first
        v = dict(v)
        setup = v.pop('setup', None)
        return ([dict(setup)] if setup else []) + [dict(v, op='failing')]
    rich = len(st.n) >= 10 and bool(top_services(st)) and bool(st.of_class('Component'))
    if rng.random() < (0.5 if rich else 0.08) and not w.queue and \
            w.stats.c.get('probe.failing_catalogue_enumerations', 0) < 2:
        # fault enumeration: every template x position applicable in this state, one after another
        steps = [x for v in vs for x in expand(v)]
        w.stats.inc('probe.failing_catalogue_enumerations')
    else:
        steps = expand(rng.choice(vs))
    w.queue = steps[1:] + w.queue
    first = steps[0]
    if first.get('op') == 'failing':
        first.pop('op')
        return first
    return ('__raw__', first)


@op('failing', 'add')
def x_failing(w, s, st, info):
    call = s['call']
    if call == 'add_component_tm':
        from fim.slivers.attached_components import ComponentType
        get_node(w, s['node']).add_component(name=s['name'], ctype=ComponentType[s['ctype']], model=s['model'],
                                             node_id=s['id'])
    elif call == 'add_child_interface' and s.get('vlan') is None:
        i = get_iface(w, s['iface'])
        i.add_child_interface(name=s['name'], node_id=s['id'])
    elif call == 'add_network_service' and any(special_ref(r) for r in s['ifs']):
        from fim.slivers.network_service import ServiceType
        ifs = [resolve_ref(w, r) for r in s['ifs']]
        w.topo.add_network_service(name=s['name'], nstype=ServiceType[s['nstype']], interfaces=ifs, node_id=s['id'])
    elif call == 'stale':
        from fim.slivers.network_service import ServiceType
        from fim.slivers.interface_info import InterfaceType
        from fim.slivers.capacities_labels import Labels
        from fim.slivers.network_node import NodeType
        sub_ = w.cfg['flavour'] == 'substrate'
        ids = list(s['ids'])
        n = get_node(w, s['node'])
        what = s['what']
        if what == 'service_add_interface':
            sv = n.add_network_service(name='staleNs', nstype=ServiceType.MPLS if sub_ else ServiceType.OVS, node_id=ids[0])
            n.remove_network_service(name='staleNs')
            sv.add_interface(name='tpS', itype=InterfaceType.TrunkPort, node_id=ids[1])
        elif what == 'node_add_component' or what == 'node_add_service':
            n2 = w.topo.add_node(name='staleNode', site='UKY', node_id=ids[0], ntype=NodeType.Server)
            w.topo.remove_node(name='staleNode')
            if what == 'node_add_component':
                if sub_:
                    n2.add_component(name='nicS', model_type=w.cmt('GPU_RTX6000'), node_id=ids[1])
                else:
                    n2.add_component(name='nicS', model_type=w.cmt('SmartNIC_ConnectX_6'), node_id=ids[1])
            else:
                n2.add_network_service(name='nsS', nstype=ServiceType.MPLS if sub_ else ServiceType.OVS, node_id=ids[1])
        else:
            if sub_:
                raise SkipStep()
            c = n.add_component(name='staleNic', model_type=w.cmt('SmartNIC_ConnectX_6'), node_id=ids[0])
            port = c.interface_list[0]
            n.remove_component(name='staleNic')
            if what == 'port_add_child':
                port.add_child_interface(name='subS', node_id=ids[1], labels=Labels(vlan='777'))
            else:
                c.set_property('details', 'written through the object of a removed component')
    elif call == 'connect_interface' and special_ref(s['iface']):
        get_service(w, s['svc'], fresh=True).connect_interface(resolve_ref(w, s['iface']))
    elif call == 'add_link' and any(special_ref(r) for r in s.get('ifs', [])):
        from fim.slivers.network_link import LinkType
        w.topo.add_link(name=s['name'], node_id=s['id'], ltype=LinkType[s['ltype']],
                        interfaces=[resolve_ref(w, r) for r in s['ifs']])
    elif call == 'set_properties_raw':
        from .w2_props import get_element
        e = get_element(w, s['kind'], s['ref'])
        kw = build_kwargs({k: s['vals'][k] for k in s['order']})
        if s.get('single'):
            e.set_property(s['order'][0], kw[s['order'][0]])
        else:
            e.set_properties(**kw)
    elif call == 'add_node' and s.get('kworder'):
        from fim.slivers.network_node import NodeType
        kw = build_kwargs({k: s['kw'][k] for k in s['kworder']})
        w.topo.add_node(name=s['name'], site=s['site'], ntype=NodeType[s['ntype']], node_id=s['id'], **kw)
    else:
        s2 = dict(s, op=call)
        s2.setdefault('kw', {})
        EXE[call](w, s2, st, info)
    info['kind'] = 'add'
    info.pop('predict', None)
    w.stats.inc('probe.unexpected_accept.%s' % s['template'])

from . import w2_props  # noqa: E402,F401  (registers the property operations)
from . import w2_validate  # noqa: E402,F401
from . import w2_authz  # noqa: E402,F401
from . import w2_diff  # noqa: E402,F401
from . import w2_rt  # noqa: E402,F401


def twin_port_sequence(w, rng, st, then_validate=False):
    """Two equally named sub-interfaces under two ports of one node, both connected to one service (legal; the
    service then holds two ports with one derived name - open finding F-C07-derived-port-name), then one of them
    disconnected: only runs that do not steer around that finding build this on purpose."""
    if 'subif_name_reuse' in w.avoid or w.cfg['flavour'] == 'substrate':
        return None
    for n in st.of_class('NetworkNode'):
        ded = [cp for cp in st.node_interfaces(n) if st.typ(cp) == 'DedicatedPort' and not st.links_of_cp(cp)]
        refs = [(cp, iface_ref(st, cp)) for cp in ded]
        refs = [(cp, r) for cp, r in refs if r and 'twin' not in [st.name(k) for k in st.child_cps(cp)]]
        if len(refs) < 2:
            continue
        (c1, r1), (c2, r2) = rng.sample(refs, 2)
        svcs = [x for x in top_services(st) if st.typ(x) in ('L2Bridge', 'L2STS')]
        steps = []
        if then_validate:
            # a type whose interface count is bounded on both sides, holding exactly the two twins
            names = [st.name(x) for x in st.of_class('NetworkService')]
            sv = next((x for x in W.SVC_NAMES + ['s6', 's7'] if x not in names), None)
            if sv is None:
                return None
            steps.append({'op': 'add_network_service', 'name': sv, 'nstype': rng.choice(['L2PTP', 'L2STS']), 'ifs': [],
                          'id': None, 'kw': {}})
        elif svcs:
            sv = st.name(rng.choice(svcs))
        else:
            names = [st.name(x) for x in st.of_class('NetworkService')]
            sv = next((x for x in W.SVC_NAMES + ['s6', 's7'] if x not in names), None)
            if sv is None:
                return None
            steps.append({'op': 'add_network_service', 'name': sv, 'nstype': 'L2Bridge', 'ifs': [], 'id': None, 'kw': {}})
        steps.append({'op': 'add_child_interface', 'iface': r1, 'name': 'twin', 'vlan': '110', 'id': None})
        steps.append({'op': 'add_child_interface', 'iface': r2, 'name': 'twin', 'vlan': '111', 'id': None})
        steps.append({'op': 'connect_interface', 'svc': sv, 'iface': dict(r1, sub='twin')})
        steps.append({'op': 'connect_interface', 'svc': sv, 'iface': dict(r2, sub='twin')})
        if then_validate:
            steps.append({'op': 'validate'})
        else:
            steps.append({'op': 'disconnect_interface', 'svc': sv, 'iface': dict(rng.choice([r1, r2]), sub='twin')})
        w.stats.inc('probe.twin_port_sequences')
        return steps
    return None
