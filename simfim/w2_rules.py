"""
C07 oracles: the thirteen published rules (vocabularies pinned in w2.py), the
containment structure, name scopes, and the read-only views.
"""
from .kernel import canon
from .struct import Struct, CLASS, NODE_ID, NAME, TYPE
from . import w2 as W


def check_invariants(w, state, st, op):
    f = lambda oracle, sig, detail: w.flag('C07', oracle, dict(sig, op=op), detail + ' (after %s)' % op)
    n_before = len(w.pending)
    # rule 2
    if st.dups:
        f('rule_2', {}, 'NodeIDs not distinct: %s' % st.dups[:3])
    for n, p in st.n.items():
        # rule 1
        missing = [k for k in (CLASS, NODE_ID, TYPE, NAME) if p.get(k) is None]
        if missing:
            f('rule_1', {'missing': ','.join(missing), 'cls': str(p.get(CLASS))},
              'node %s lacks %s: %s' % (n, missing, canon(p)[:200]))
            continue
        c, t = p[CLASS], p[TYPE]
        if c not in W.RULE_CLASSES:
            f('rule_3', {'cls': c}, 'node %s has class %s' % (n, c))
        elif c == 'NetworkNode' and t not in W.RULE_NODE_TYPES:
            f('rule_4', {'type': t}, 'NetworkNode %s has type %s' % (p[NAME], t))
        elif c == 'Component' and t not in W.RULE_COMP_TYPES:
            f('rule_5', {'type': t}, 'Component %s has type %s' % (p[NAME], t))
        elif c == 'ConnectionPoint' and t not in W.RULE_CP_TYPES:
            f('rule_6', {'type': t}, 'ConnectionPoint %s has type %s' % (p[NAME], t))
        elif c == 'NetworkService' and t not in W.RULE_NS_TYPES:
            f('rule_7', {'type': t}, 'NetworkService %s has type %s, not among the published service types' %
              (p[NAME], t))
        elif c == 'Link' and t not in W.RULE_LINK_TYPES:
            f('rule_8', {'type': t}, 'Link %s has type %s' % (p[NAME], t))
    if len(w.pending) > n_before:
        return        # vocabulary rules already failed: the structural reading below assumes them
    for c in st.of_class('Component'):
        owners = st.node_of_component(c)
        if len(owners) != 1:
            f('rule_9' if not owners else 'own_component', {'n': len(owners)},
              'component %s is owned by %d nodes' % (st.name(c), len(owners)))
    for l in st.of_class('Link'):
        for m, r in st.adj[l]:
            if r == 'connects' and st.cls(m) != 'ConnectionPoint':
                f('rule_10', {'cls': st.cls(m)}, 'link %s connects to a %s' % (st.name(l), st.cls(m)))
            if r != 'connects':
                f('link_ends', {'rel': r}, 'link %s has a %s edge' % (st.name(l), r))
    for cp in st.of_class('ConnectionPoint'):
        owners = st.service_of_cp(cp) + st.parent_cp(cp)
        if len(owners) != 1:
            f('own_interface', {'n': len(owners), 'type': st.typ(cp)},
              'interface %s (%s) has %d owners (services/parent interfaces): %s' %
              (st.name(cp), st.typ(cp), len(owners), [st.name(o) for o in owners]))
        if st.typ(cp) == 'ServicePort':
            peers = st.peers(cp)
            if len(peers) != 1:
                f('rule_13', {'n': len(peers)}, 'service port %s has %d peers' % (st.name(cp), len(peers)))
    for s in st.of_class('NetworkService'):
        if len(st.owner_of_service(s)) > 1:
            f('own_service', {}, 'service %s has %d owners' % (st.name(s), len(st.owner_of_service(s))))
    # name scopes
    def uniq(ids, scope, what):
        names = [st.name(i) for i in ids]
        d = sorted(set(x for x in names if names.count(x) > 1))
        if d:
            f('names_unique', {'scope': what}, '%s names not unique in %s: %s' % (what, scope, d))
    uniq(st.of_class('NetworkNode'), 'the topology', 'node')
    uniq(st.of_class('Link'), 'the topology', 'link')
    uniq([s for s in st.of_class('NetworkService') if not st.owner_of_service(s)], 'the topology', 'service')
    for n in st.of_class('NetworkNode'):
        uniq(st.components_of(n), 'node %s' % st.name(n), 'component')
        uniq(st.services_of(n), 'node %s' % st.name(n), 'node service')
    for c in st.of_class('Component'):
        uniq(st.services_of(c), 'component %s' % st.name(c), 'component service')
    for s in st.of_class('NetworkService'):
        uniq(st.cps_of_service(s), 'service %s' % st.name(s), 'interface')
    for cp in st.of_class('ConnectionPoint'):
        if not st.is_sub(cp):
            uniq(st.child_cps(cp), 'interface %s' % st.name(cp), 'sub-interface')


def _ids(elems):
    return sorted(e.node_id for e in elems)


def check_views(w, st, op):
    """the read-only views list exactly the elements present in the model (C07 clause 2)"""
    t = w.topo
    f = lambda view, detail: w.flag('C07', 'views_exact', {'view': view, 'op': op}, detail + ' (after %s)' % op)

    def cmp(view, got_ids, want_ids):
        if sorted(got_ids) != sorted(want_ids):
            f(view, '%s lists %s, the model holds %s' %
              (view, [st.name(i) if i in st.n else i for i in sorted(got_ids)],
               [st.name(i) for i in sorted(want_ids)]))
    try:
        nodes = [n for n in st.of_class('NetworkNode')]
        cmp('topology.nodes', _ids(t.nodes.values()), [n for n in nodes if st.typ(n) != 'Facility'])
        cmp('topology.facilities', _ids(t.facilities.values()), [n for n in nodes if st.typ(n) == 'Facility'])
        cmp('topology.links', _ids(t.links.values()), st.of_class('Link'))
        cmp('topology.network_services', _ids(t.network_services.values()), st.of_class('NetworkService'))
        want = []
        for n in nodes:
            if st.typ(n) != 'Facility':
                want.extend(st.node_interfaces(n))
        cmp('topology.interface_list', _ids(t.interface_list), want)
        for k, v in t.nodes.items():
            if k != v.name:
                f('topology.nodes', 'key %r maps to node named %r' % (k, v.name))
        allnodes = list(t.nodes.values()) + list(t.facilities.values())
        for nd in allnodes:
            nid = nd.node_id
            cmp('node.components', _ids(nd.components.values()), st.components_of(nid))
            cmp('node.interface_list', _ids(nd.interface_list), st.node_interfaces(nid))
            cmp('node.interfaces', _ids(nd.interfaces.values()), st.node_interfaces(nid))
            cmp('node.direct_interfaces', _ids(nd.direct_interfaces.values()), st.node_interfaces(nid, True))
            cmp('node.network_services', _ids(nd.network_services.values()), st.services_of(nid))
            for c in nd.components.values():
                cmp('component.interface_list', _ids(c.interface_list), st.component_interfaces(c.node_id))
                cmp('component.interfaces', _ids(c.interfaces.values()), st.component_interfaces(c.node_id))
                cmp('component.network_services', _ids(c.network_services.values()), st.services_of(c.node_id))
        for sv in t.network_services.values():
            cmp('service.interface_list', _ids(sv.interface_list), st.cps_of_service(sv.node_id))
            cmp('service.interfaces', _ids(sv.interfaces.values()), st.cps_of_service(sv.node_id))
        for lk in t.links.values():
            cmp('link.interface_list', _ids(lk.interface_list), st.cps_of_link(lk.node_id))
        for i in t.interface_list:
            if st.typ(i.node_id) == 'DedicatedPort':
                cmp('interface.interface_list', _ids(i.interface_list), st.child_cps(i.node_id))
    except Exception as e:   # a view that cannot even be read is a view that does not list the model
        f('raises', 'reading the views raised %s: %s' % (type(e).__name__, str(e)[:200]))
