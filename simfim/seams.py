"""
Seams the simulator owns.  Nothing here changes /repo: every seam is an
attribute or module global rebound inside the simulator process only.
"""
import builtins
import errno
import io
import os
import shutil
import tempfile
import uuid as _uuid

from .kernel import load_known_findings

_real_uuid4 = _uuid.uuid4
_real_open = builtins.open
_real_NamedTemporaryFile = tempfile.NamedTemporaryFile


class SimDeadlock(BaseException):
    """The simulated lock was acquired while already held by the (only) running caller."""


class SimLock:
    """
    Stand-in for the store's threading.Lock in the sequential worlds.  It refuses
    nothing the real lock would allow, raises the real lock's RuntimeError when an
    unlocked lock is released, and records what happened for the C20 oracles.
    """

    def __init__(self, store):
        self.store = store
        self.held = False
        self.acq = 0
        self.rel = 0
        self.errors = []

    def reset(self):
        self.acq = 0
        self.rel = 0
        self.errors = []

    def force_release(self):
        self.held = False

    def acquire(self, blocking=True, timeout=-1):
        if self.held:
            self.errors.append('acquire_while_held')
            if not blocking:
                return False
            raise SimDeadlock()
        self.held = True
        self.acq += 1
        return True

    def release(self):
        if not self.held:
            self.errors.append('double_release')
            raise RuntimeError('release unlocked lock')
        self.held = False
        self.rel += 1

    # a threading.Lock is also a context manager
    def __enter__(self):
        self.acquire()
        return True

    def __exit__(self, *a):
        self.release()
        return False

    def locked(self):
        return self.held

    def __enter__(self):
        self.acquire()
        return True

    def __exit__(self, *a):
        self.release()


def avoid_set():
    s = set()
    for f in load_known_findings():
        if f.get('status') == 'open':
            s.update(f.get('avoid', []))
    return s


class FaultyFile:
    """wraps a real text file object; may fail or silently truncate writes"""

    def __init__(self, f, seam, mode):
        self._f = f
        self._seam = seam
        self._mode = mode
        self.name = getattr(f, 'name', None)

    def write(self, data):
        kind = self._seam.draw_fault('write')
        if kind == 'enospc':
            raise OSError(errno.ENOSPC, 'No space left on device (injected)')
        if kind == 'short_write' and len(data) > 1:
            cut = self._seam.fault_rng.randrange(1, len(data))
            self._f.write(data[:cut])
            return len(data)
        return self._f.write(data)

    def read(self, *a):
        kind = self._seam.draw_fault('read')
        if kind == 'eio':
            raise OSError(errno.EIO, 'Input/output error (injected)')
        return self._f.read(*a)

    def __getattr__(self, name):
        return getattr(self._f, name)

    def __enter__(self):
        self._f.__enter__()
        return self

    def __exit__(self, *a):
        return self._f.__exit__(*a)

    def __iter__(self):
        return iter(self._f)


class Seams:
    def __init__(self, streams, stats):
        self.streams = streams
        self.stats = stats
        self.uuid_rng = streams.get('uuid')
        self.fault_rng = streams.get('faults')
        self.scratch = None
        self.patched = []
        self.io_enabled = False
        self.io_rate = 0.0
        self.io_kinds = []
        self.fired = 0
        self.armed = False

    # ---- uuid
    def install_uuid(self):
        rng = self.uuid_rng

        def fake_uuid4():
            return _uuid.UUID(int=rng.getrandbits(128), version=4)
        _uuid.uuid4 = fake_uuid4
        self.patched.append((_uuid, 'uuid4', _real_uuid4))

    # ---- scratch dir
    def make_scratch(self):
        self.scratch = _real_mkdtemp(prefix='simfim-')
        return self.scratch

    # ---- file faults
    def enable_io_faults(self, modules, rate, kinds):
        """rebind `open` and `tempfile` in the given fim modules to fault-injecting wrappers"""
        self.io_enabled = True
        self.io_rate = rate
        self.io_kinds = kinds
        seam = self

        def faulty_open(file, mode='r', *a, **kw):
            if seam.armed and isinstance(file, str) and seam.scratch and file.startswith(seam.scratch):
                if 'r' in mode and seam.draw_fault('open') == 'missing':
                    raise FileNotFoundError(errno.ENOENT, 'No such file (injected)', file)
                return FaultyFile(_real_open(file, mode, *a, **kw), seam, mode)
            return _real_open(file, mode, *a, **kw)

        class FaultyTempfile:
            def __getattr__(self, name):
                return getattr(tempfile, name)

            @staticmethod
            def NamedTemporaryFile(*a, **kw):
                kw.setdefault('dir', seam.scratch)
                f = _real_NamedTemporaryFile(*a, **kw)
                if not seam.armed:
                    return f
                return FaultyFile(f, seam, kw.get('mode', 'w+b'))

        class NxProxy:
            def __init__(self, real):
                self._real = real

            def __getattr__(self, name):
                return getattr(self._real, name)

            def read_graphml(self, path, *a, **kw):
                if seam.armed:
                    k = seam.draw_fault('read')
                    if k == 'eio':
                        raise OSError(errno.EIO, 'Input/output error (injected)')
                    k = seam.draw_fault('open')
                    if k == 'missing':
                        raise FileNotFoundError(errno.ENOENT, 'No such file (injected)', str(path))
                return self._real.read_graphml(path, *a, **kw)

        for mod in modules:
            if hasattr(mod, 'nx'):
                self.patched.append((mod, 'nx', mod.nx))
                mod.nx = NxProxy(mod.nx)
            if hasattr(mod, 'tempfile'):
                self.patched.append((mod, 'tempfile', mod.tempfile))
                mod.tempfile = FaultyTempfile()
            had = 'open' in mod.__dict__
            self.patched.append((mod, 'open', mod.__dict__.get('open', _MISSING)))
            mod.open = faulty_open

    def draw_fault(self, site):
        if not (self.io_enabled and self.armed):
            return None
        if self.fault_rng.random() >= self.io_rate:
            return None
        cands = [k for k in self.io_kinds if k in SITE_KINDS[site]]
        if not cands:
            return None
        k = self.fault_rng.choice(cands)
        self.fired += 1
        self.stats.inc('faults.io.%s' % k)
        return k

    def uninstall(self):
        for obj, name, old in reversed(self.patched):
            if old is _MISSING:
                try:
                    delattr(obj, name)
                except AttributeError:
                    pass
            else:
                setattr(obj, name, old)
        self.patched = []
        if self.scratch:
            shutil.rmtree(self.scratch, ignore_errors=True)
            self.scratch = None


_MISSING = object()
_real_mkdtemp = tempfile.mkdtemp
SITE_KINDS = {'write': ('enospc', 'short_write'), 'read': ('eio',), 'open': ('missing',)}
