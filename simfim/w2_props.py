"""
C02 as operations of W2: set/get/unset over the full setter vocabulary of each
element's sliver class (list_properties(), so a new setter is picked up),
deep sliver from the graph vs the abstract sub-tree, sliver -> dict -> JSON -> sliver.
The simulation contributes state diversity only (see DESIGN 4/C02).
"""
import json

from .kernel import SkipStep, HarnessError, canon
from .struct import Struct, state_diff, CLASS, NAME, TYPE, NODE_ID
from . import w2 as W
from .w2_ops import op, get_node, get_iface, get_service, iface_ref, top_services, build_kwargs, _exists_or_skip

# pinned copy of ABCPropertyGraph.SLIVER_PROPERTY_TO_GRAPH plus the properties that mapping leaves out
SLIVER_TO_GRAPH = {
    "name": "Name", "type": "Type", "capacities": "Capacities", "capacity_hints": "CapacityHints", "labels": "Labels",
    "capacity_delegations": "CapacityDelegations", "label_delegations": "LabelDelegations",
    "capacity_allocations": "CapacityAllocations", "label_allocations": "LabelAllocations",
    "reservation_info": "ReservationInfo", "site": "Site", "image_ref": "ImageRef", "management_ip": "MgmtIp",
    "allocation_constraints": "AllocationConstraints", "service_endpoint": "ServiceEndpoint", "details": "Details",
    "layer": "Layer", "technology": "Technology", "model": "Model", "node_map": "NodeMap",
    "structural_info": "StructuralInfo", "ero": "ERO", "path_info": "PathInfo", "controller_url": "ControllerURL",
    "gateway": "Gateway", "mirror_port": "MirrorPort", "mirror_vlan": "MirrorVlan",
    "mirror_direction": "MirrorDirection", "peer_labels": "PeerLabels", "mf_data": "MeasurementData",
    "layout_data": "LayoutData", "user_data": "UserData", "tags": "Tags", "flags": "Flags", "boot_script": "BootScript",
    "maintenance_info": "MaintenanceInfo", "location": "Location",
}
# settable names deliberately not exercised through set_property, with the reason
NOT_GENERATED = {
    'name': 'rename() is the operation for it', 'type': 'changing the type changes which rules apply',
    'image_type': 'stored only together with image_ref (set as a pair)',
    'image_ref': 'stored only together with image_type (set as a pair)',
    'capacity_delegations': 'delegations belong to C12/C13', 'label_delegations': 'delegations belong to C12/C13',
    'maintenance_info': 'value class belongs to C03', 'network_service_info': 'structural, not a scalar property',
}


def gen_value(rng, name, kind):
    """JSON description of a valid value for a settable property (None: no generator)"""
    r = rng.random
    if name in ('capacities', 'capacity_allocations'):
        fields = {'core': rng.choice([1, 2, 4, 32]), 'ram': rng.choice([4, 8, 64]), 'disk': rng.choice([10, 100, 500]),
                  'bw': rng.choice([1, 10, 25, 100]), 'unit': rng.choice([1, 2]), 'mtu': rng.choice([1500, 9000])}
        keys = sorted(fields)
        rng.shuffle(keys)
        return {'_t': 'Capacities', 'a': {k: fields[k] for k in keys[:rng.randint(1, 3)]}}
    if name == 'capacity_hints':
        return {'_t': 'CapacityHints', 'a': {'instance_type': rng.choice(['fabric.c2.m8.d10', 'fabric.c4.m16.d100'])}}
    if name in ('labels', 'label_allocations', 'peer_labels'):
        opts = [{'vlan': str(rng.randint(1, 4000))}, {'ipv4': '192.168.%d.%d' % (rng.randint(0, 255), rng.randint(1, 254))},
                {'mac': '0C:42:A1:EA:C7:%02X' % rng.randint(0, 255)}, {'bdf': '0000:41:00.%d' % rng.randint(0, 7)},
                {'local_name': rng.choice(['p1', 'HundredGigE0/0/0/5'])}, {'instance_parent': 'renc-w%d' % rng.randint(1, 3)},
                {'ipv6': '2001:db8::%x' % rng.randint(1, 65000)}, {'vlan_range': '100-200'}, {'asn': str(rng.randint(1, 65000))},
                {'ipv4_subnet': '10.%d.0.0/24' % rng.randint(0, 200)}]
        a = {}
        for o in rng.sample(opts, rng.randint(1, 3)):
            a.update(o)
        return {'_t': 'Labels', 'a': a}
    if name == 'reservation_info':
        return {'_t': 'ReservationInfo', 'a': {'reservation_id': 'r-%d' % rng.randint(1, 99),
                                               'reservation_state': rng.choice(['Active', 'Closed', 'Failed', 'Ticketed'])}}
    if name == 'structural_info':
        return {'_t': 'StructuralInfo', 'a': {'adm_graph_ids': ['adm-%d' % i for i in range(rng.randint(1, 2))]}}
    if name in ('details', 'model', 'technology', 'allocation_constraints', 'controller_url', 'mirror_port',
                'service_endpoint'):
        if name == 'service_endpoint':
            return '10.0.0.%d' % rng.randint(1, 250)
        pool = ['some value', 'q"uote', '<&>', 'ünï', 'a b ', 'https://ctl.example/x?y=1&z=2']
        if name in ('details', 'model', 'technology', 'allocation_constraints', 'controller_url'):
            pool.append('')        # empty text is a legal value of a plain string property
            pool.append('None')    # so is the word None (the persistent backend's marker for "unset" is that text)
        return rng.choice(pool)
    if name == 'stitch_node':
        return rng.random() < 0.5
    if name == 'site':
        return rng.choice(W.SITES)
    if name == 'mirror_vlan':
        return str(rng.randint(1, 4000))
    if name == 'mirror_direction':
        return {'_t': 'MirrorDirection', 'a': rng.choice(['Both', 'RX_Only', 'TX_Only'])}
    if name == 'layer':
        return {'_t': 'NSLayer', 'a': rng.choice(['L2', 'L3'])}
    if name == 'management_ip':
        return rng.choice(['192.168.11.%d' % rng.randint(1, 250), '2001:db8::1'])
    if name == 'node_map':
        return ['graph-%d' % rng.randint(1, 3), 'node-%d' % rng.randint(1, 9)]
    if name == 'tags':
        return {'_t': 'Tags', 'a': rng.sample(['blue', 'heavy', 't-1', 'x_y'], rng.randint(1, 3))}
    if name == 'flags':
        a = {}
        for k in rng.sample(['auto_config', 'ipv4_management', 'auto_mount'], rng.randint(1, 2)):
            a[k] = r() < 0.5
        return {'_t': 'Flags', 'a': a}
    if name in ('mf_data', 'user_data', 'layout_data'):
        t = {'mf_data': 'MeasurementData', 'user_data': 'UserData', 'layout_data': 'LayoutData'}[name]
        if r() < 0.25:
            # any JSON value is a legal payload, also the ones python treats as false
            return {'_t': t, 'a': rng.choice([[], 0, {}, [1], 7]), 'o': r() < 0.6}
        return {'_t': t, 'a': {'k': rng.randint(0, 9), 's': rng.choice(['v', 'q"', '<&>']), 'l': [1, 2][:rng.randint(0, 2)]},
                'o': r() < 0.3}
    if name == 'boot_script':
        return rng.choice(['#!/bin/bash\necho hi', 'echo "q" && ls <a>', ''])
    if name == 'location':
        return {'_t': 'Location', 'a': {'postal': '100 Europa Dr., Chapel Hill, NC 27517'}}
    if name == 'gateway':
        return {'_t': 'Gateway', 'a': {'ipv4_subnet': '10.%d.1.0/24' % rng.randint(0, 200), 'ipv4': '10.1.1.1'}}
    if name == 'ero':
        return {'_t': 'ERO', 'a': ['10.1.1.%d' % rng.randint(1, 9), '10.1.2.%d' % rng.randint(1, 9)]}
    if name == 'path_info':
        return {'_t': 'PathInfo', 'a': ['10.1.1.1', '10.1.1.%d' % rng.randint(2, 9)]}
    return None


def build_value(d):
    if isinstance(d, dict) and '_t' in d:
        t, a = d['_t'], d['a']
        if t in ('MirrorDirection',):
            from fim.slivers.network_service import MirrorDirection
            return MirrorDirection[a]
        if t == 'NSLayer':
            from fim.slivers.network_service import NSLayer
            return NSLayer[a]
        if t == 'StructuralInfo':
            from fim.slivers.capacities_labels import StructuralInfo
            return StructuralInfo(**a)
        if t == 'ERO':
            from fim.slivers.path_info import ERO, Path
            p = Path()
            p.set_symmetric(list(a))
            e = ERO()
            e.set(payload=p)
            return e
        if t == 'PathInfo':
            from fim.slivers.path_info import PathInfo, Path
            p = Path()
            p.set_symmetric(list(a))
            e = PathInfo()
            e.set(payload=p)
            return e
        return build_kwargs({'v': d})['v']
    if isinstance(d, list):
        return tuple(d)
    return d


def canon_value(v):
    """canonical, comparable form of a property value as set or as read back"""
    import enum
    import ipaddress
    if v is None:
        return None
    if hasattr(v, 'to_json') and callable(v.to_json):
        j = v.to_json()
        try:
            return json.loads(j) if j else None
        except Exception:
            return j
    if hasattr(v, 'json') and hasattr(v, 'data'):
        return v.data
    if isinstance(v, enum.Enum):
        return v.name
    if isinstance(v, (ipaddress.IPv4Address, ipaddress.IPv6Address)):
        return str(v)
    if isinstance(v, (tuple, list)):
        return [canon_value(x) for x in v]
    return v


def element_targets(st):
    """[(kind, ref, node id)] of every model element addressable through the API"""
    out = []
    for n in st.of_class('NetworkNode'):
        out.append(('node', {'node': st.name(n)}, n))
        for c in st.components_of(n):
            out.append(('component', {'node': st.name(n), 'comp': st.name(c)}, c))
        for cp in st.node_interfaces(n):
            r = iface_ref(st, cp)
            if r:
                out.append(('interface', r, cp))
                for k in st.child_cps(cp):
                    out.append(('interface', dict(r, sub=st.name(k)), k))
    for s in top_services(st):
        out.append(('service', {'svc': st.name(s)}, s))
    # services owned by a node or a component are reached through the same name-keyed view of the topology
    allnames = [st.name(x) for x in st.of_class('NetworkService')]
    for s in st.of_class('NetworkService'):
        if st.owner_of_service(s) and allnames.count(st.name(s)) == 1:
            out.append(('service', {'svc': st.name(s), 'owned': True}, s))
    for l in st.of_class('Link'):
        out.append(('link', {'link': st.name(l)}, l))
    return out


def get_element(w, kind, ref):
    if kind == 'node':
        return get_node(w, ref['node'])
    if kind == 'component':
        c = get_node(w, ref['node']).components.get(ref['comp'])
        _exists_or_skip(c is not None)
        return c
    if kind == 'interface':
        return get_iface(w, ref)
    if kind == 'service':
        return get_service(w, ref['svc'], fresh=True)
    if kind == 'link':
        l = w.topo.links.get(ref['link'])
        _exists_or_skip(l is not None)
        return l
    raise HarnessError(kind)


PROPS_OF = {}


def settable(kind):
    if kind not in PROPS_OF:
        from fim.user.node import Node
        from fim.user.component import Component
        from fim.user.interface import Interface
        from fim.user.network_service import NetworkService
        from fim.user.link import Link
        cls = {'node': Node, 'component': Component, 'interface': Interface, 'service': NetworkService, 'link': Link}[kind]
        PROPS_OF[kind] = sorted(cls.list_properties())
    return PROPS_OF[kind]


def pick_target(w, rng, st):
    ts = element_targets(st)
    if not ts:
        return None
    return rng.choice(ts)


@op('set_property', 'add')
def g_set_property(w, rng, st):
    t = pick_target(w, rng, st)
    if t is None:
        return None
    kind, ref, nid = t
    names = [n for n in settable(kind) if n not in NOT_GENERATED]
    if w.prop == 'C11' and rng.random() < 0.12:
        # node kinds that usually carry no capacities (switches, NAS) given some: every node's CPU/RAM/disk counts
        odd = [tt for tt in element_targets(st) if tt[0] == 'node' and st.typ(tt[2]) in ('Switch', 'NAS', 'Container')]
        if odd:
            kind, ref, nid = rng.choice(odd)
            v = gen_value(rng, 'capacities', 'node')
            if v is not None:
                return {'kind': kind, 'ref': ref, 'name': 'capacities', 'val': v}
    if rng.random() < 0.3:
        # overwrite something that already has a value with a DIFFERENT one (a raised flag lowered again, a list
        # made shorter, ...): reading back must give the new value, not a blend with the old
        has = []
        for tt in element_targets(st):
            for n in settable(tt[0]):
                if n in NOT_GENERATED:
                    continue
                g = 'StitchNode' if n == 'stitch_node' else SLIVER_TO_GRAPH.get(n)
                cur = st.n[tt[2]].get(g) if g else None
                if cur is not None and not (n == 'stitch_node' and cur != 'true'):
                    has.append((tt, n))
        if has:
            (kind, ref, nid), name = rng.choice(has)
            for _ in range(4):
                v = False if name == 'stitch_node' else gen_value(rng, name, kind)
                if name == 'stitch_node' and kind == 'service' and 'stitch_node_on_service' in w.avoid:
                    break
                if v is not None:
                    w.stats.inc('probe.set_property_overwrites')
                    return {'kind': kind, 'ref': ref, 'name': name, 'val': v}
    for _ in range(6):
        name = rng.choice(names)
        v = gen_value(rng, name, kind)
        if name == 'stitch_node' and kind == 'service' and 'stitch_node_on_service' in w.avoid:
            v = False       # recorded finding F-C10-validate-resets-stitch-node
        if v is not None:
            return {'kind': kind, 'ref': ref, 'name': name, 'val': v}
        w.stats.inc('probe.no_value_generator.%s' % name)
    return None


def _after_set(w, s, e, nid, name, want, pre_props):
    got = e.get_property(name)
    if canon(canon_value(got)) != canon(canon_value(want)):
        w.flag('C02', 'prop_set_get', {'kind': s['kind'], 'name': name},
               '%s.set_property(%r, %s) then get_property returns %s' %
               (s['kind'], name, canon(canon_value(want))[:200], canon(canon_value(got))[:200]))


@op('set_property', 'add')
def x_set_property(w, s, st, info):
    e = get_element(w, s['kind'], s['ref'])
    v = build_value(s['val'])
    e.set_property(s['name'], v)
    _after_set(w, s, e, e.node_id, s['name'], v, None)
    w.stats.inc('probe.set_property.%s.%s' % (s['kind'], s['name']))


@op('set_properties', 'add')
def g_set_properties(w, rng, st):
    t = pick_target(w, rng, st)
    if t is None:
        return None
    kind, ref, nid = t
    names = [n for n in settable(kind) if n not in NOT_GENERATED]
    vals = {}
    for name in rng.sample(names, min(3, len(names))):
        v = gen_value(rng, name, kind)
        if name == 'stitch_node' and kind == 'service' and 'stitch_node_on_service' in w.avoid:
            v = False
        if v is not None:
            vals[name] = v
    if kind == 'node' and rng.random() < 0.5:
        vals['image_type'] = 'qcow2'
        vals['image_ref'] = rng.choice(['default_rocky_8', 'default_ubuntu_22'])
    if not vals:
        return None
    return {'kind': kind, 'ref': ref, 'vals': vals}


@op('set_properties', 'add')
def x_set_properties(w, s, st, info):
    e = get_element(w, s['kind'], s['ref'])
    built = {k: build_value(v) for k, v in s['vals'].items()}
    e.set_properties(**built)
    for k, v in built.items():
        _after_set(w, s, e, e.node_id, k, v, None)


@op('unset_property', 'add')
def g_unset_property(w, rng, st):
    t = pick_target(w, rng, st)
    if t is None:
        return None
    kind, ref, nid = t
    inv = {v: k for k, v in SLIVER_TO_GRAPH.items()}
    have = [inv[p] for p in sorted(st.n[nid]) if p in inv and inv[p] in settable(kind)]
    name = rng.choice(have) if have and rng.random() < 0.8 else rng.choice(settable(kind))
    return {'kind': kind, 'ref': ref, 'name': name}


@op('unset_property', 'add')
def x_unset_property(w, s, st, info):
    e = get_element(w, s['kind'], s['ref'])
    name = s['name']
    gp = SLIVER_TO_GRAPH.get(name)
    was_set = gp is not None and gp in st.n[e.node_id]
    identity = name in ('name', 'type')
    if not was_set and not identity:
        # unsetting what is not set is a documented-silent corner (the in-memory backends raise): not exercised
        raise SkipStep()
    try:
        e.unset_property(name)
    except Exception as ex:
        if identity:
            info['identity_rejected'] = True
            raise
        w.flag('C02', 'prop_unset_absent', {'kind': s['kind'], 'name': name, 'symptom': 'raised'},
               '%s.unset_property(%r) of a set property raised %r' % (s['kind'], name, ex))
        return
    if identity:
        w.flag('C05', 'identity_unset_rejected', {'name': name, 'world': 'W2'},
               'unset_property(%r) on a %s was accepted' % (name, s['kind']))
        return
    if name == 'image_ref':
        return
    got = e.get_property(name)
    from .struct import graph_state
    now = graph_state(w.imp, w.gid())['nodes'].get(e.node_id, [{}])[0]
    if canon_value(got) is not None or gp in now:      # an empty value object counts as absent
        w.flag('C02', 'prop_unset_absent', {'kind': s['kind'], 'name': name, 'symptom': 'still_there'},
               'after %s.unset_property(%r): get_property -> %s, graph property %s present=%s' %
               (s['kind'], name, canon(canon_value(got))[:120], gp, gp in now))


@op('update_labels', 'add')
def g_update_labels(w, rng, st):
    t = pick_target(w, rng, st)
    if t is None:
        return None
    kind, ref, nid = t
    return {'kind': kind, 'ref': ref, 'kw': rng.choice([{'vlan': str(rng.randint(1, 4000))},
                                                         {'instance_parent': 'w9'}, {'local_name': 'p9', 'asn': '65000'}])}


@op('update_labels', 'add')
def x_update_labels(w, s, st, info):
    e = get_element(w, s['kind'], s['ref'])
    before = canon_value(e.get_property('labels')) or {}
    e.update_labels(**s['kw'])
    want = dict(before)
    want.update(s['kw'])
    got = canon_value(e.get_property('labels'))
    if canon(got) != canon(want):
        w.flag('C02', 'prop_set_get', {'kind': s['kind'], 'name': 'update_labels'},
               'update_labels(%s) on labels %s gives %s, expected %s' % (s['kw'], before, got, want))


@op('update_capacities', 'add')
def g_update_capacities(w, rng, st):
    t = pick_target(w, rng, st)
    if t is None:
        return None
    kind, ref, nid = t
    return {'kind': kind, 'ref': ref, 'kw': rng.choice([{'core': rng.choice([2, 6])}, {'bw': 40}, {'ram': 12, 'disk': 7}])}


@op('update_capacities', 'add')
def x_update_capacities(w, s, st, info):
    e = get_element(w, s['kind'], s['ref'])
    before = canon_value(e.get_property('capacities')) or {}
    e.update_capacities(**s['kw'])
    want = dict(before)
    want.update(s['kw'])
    got = canon_value(e.get_property('capacities'))
    if canon(got) != canon(want):
        w.flag('C02', 'prop_set_get', {'kind': s['kind'], 'name': 'update_capacities'},
               'update_capacities(%s) on %s gives %s, expected %s' % (s['kw'], before, got, want))


PROPERTY_STYLE = {
    'node': ['site', 'capacity_hints', 'location', 'capacities', 'labels', 'details', 'tags', 'flags', 'user_data',
             'mf_data', 'layout_data', 'boot_script', 'reservation_info', 'image_ref'],
    'service': ['site', 'controller_url', 'ero', 'path_info', 'gateway', 'mirror_port', 'mirror_vlan',
                'mirror_direction', 'capacities', 'labels', 'user_data'],
    'interface': ['peer_labels', 'capacities', 'labels', 'user_data', 'flags'],
    'component': ['capacities', 'labels', 'details', 'user_data', 'boot_script'],
    'link': ['capacities', 'labels', 'details'],
}


@op('prop_setter', 'add')
def g_prop_setter(w, rng, st):
    t = pick_target(w, rng, st)
    if t is None:
        return None
    kind, ref, nid = t
    name = rng.choice(PROPERTY_STYLE[kind])
    if name == 'image_ref':
        if not st.n[nid].get('ImageRef'):
            return None
        return {'kind': kind, 'ref': ref, 'name': name, 'val': rng.choice(['default_debian_11', 'default_fedora_37'])}
    v = gen_value(rng, name, kind)
    if v is None:
        return None
    return {'kind': kind, 'ref': ref, 'name': name, 'val': v}


@op('prop_setter', 'add')
def x_prop_setter(w, s, st, info):
    e = get_element(w, s['kind'], s['ref'])
    v = build_value(s['val'])
    name = s['name']
    if name in ('user_data', 'mf_data', 'layout_data'):
        raw = s['val']['a']
        setattr(e, name, raw)           # the property-style setter accepts the plain object
        got = getattr(e, name)
        if canon(got) != canon(raw):
            w.flag('C02', 'prop_set_get', {'kind': s['kind'], 'name': name, 'via': 'attribute'},
                   '%s.%s = %s then reads back %s' % (s['kind'], name, canon(raw), canon(got)))
        return
    setattr(e, name, v)
    got = getattr(e, name)
    if canon(canon_value(got)) != canon(canon_value(v)):
        w.flag('C02', 'prop_set_get', {'kind': s['kind'], 'name': name, 'via': 'attribute'},
               '%s.%s = %s then reads back %s' % (s['kind'], name, canon(canon_value(v))[:200],
                                                   canon(canon_value(got))[:200]))


# ================================================================ deep slivers
def props_dict_of(sliver):
    from fim.graph.abc_property_graph import ABCPropertyGraph as G
    from fim.slivers.network_node import NodeSliver, CompositeNodeSliver
    from fim.slivers.network_service import NetworkServiceSliver
    from fim.slivers.attached_components import ComponentSliver
    from fim.slivers.interface_info import InterfaceSliver
    from fim.slivers.network_link import NetworkLinkSliver
    if isinstance(sliver, (NodeSliver, CompositeNodeSliver)):
        return G.node_sliver_to_graph_properties_dict(sliver)
    if isinstance(sliver, NetworkServiceSliver):
        return G.network_service_sliver_to_graph_properties_dict(sliver)
    if isinstance(sliver, ComponentSliver):
        return G.component_sliver_to_graph_properties_dict(sliver)
    if isinstance(sliver, InterfaceSliver):
        return G.interface_sliver_to_graph_properties_dict(sliver)
    if isinstance(sliver, NetworkLinkSliver):
        return G.link_sliver_to_graph_properties_dict(sliver)
    raise HarnessError('unknown sliver %r' % type(sliver))


def jeq(a, b):
    """graph property values are equal as content (JSON-valued ones after parsing)"""
    if a == b:
        return True
    try:
        return canon(json.loads(a)) == canon(json.loads(b))
    except Exception:
        return False


def compare_sliver(w, st, sliver, nid, path, depth=0):
    """the deep sliver equals the abstract sub-tree rooted at nid: properties and children, recursively"""
    if sliver.node_id != nid:
        w.flag('C02', 'sliver_from_graph', {'symptom': 'node_id'}, '%s: sliver node_id %r, element %r' %
               (path, sliver.node_id, nid))
        return
    want = {k: v for k, v in st.n[nid].items() if k not in (CLASS, NODE_ID, 'GraphID')}
    got = props_dict_of(sliver)
    for k in sorted(set(want) | set(got)):
        if k == 'StitchNode' and k not in want and got.get(k) == 'false':
            continue
        if k not in want and got.get(k) is None:
            continue      # an empty value object (e.g. Gateway without labels) encodes as None: same as absent
        if k not in got or k not in want or not jeq(got[k], want[k]):
            w.flag('C02', 'sliver_from_graph', {'symptom': 'property', 'prop': k, 'cls': st.cls(nid)},
                   '%s: graph has %s=%r, the rebuilt sliver encodes %r' % (path, k, want.get(k), got.get(k)))
            return

    def kids(info, attr):
        if info is None:
            return {}
        return {x.node_id: x for x in getattr(info, attr).values()}
    c = st.cls(nid)
    if c in ('NetworkNode', 'CompositeNode'):
        parts = [('components', kids(sliver.attached_components_info, 'devices'), st.components_of(nid)),
                 ('services', kids(sliver.network_service_info, 'network_services'), st.services_of(nid))]
    elif c == 'Component':
        parts = [('services', kids(sliver.network_service_info, 'network_services'), st.services_of(nid))]
    elif c == 'NetworkService':
        parts = [('interfaces', kids(sliver.interface_info, 'interfaces'), st.cps_of_service(nid))]
    elif c == 'ConnectionPoint':
        parts = [('sub-interfaces', kids(sliver.interface_info, 'interfaces'),
                  st.child_cps(nid) if st.typ(nid) == 'DedicatedPort' else [])]
    else:
        parts = []
    for what, got_k, want_k in parts:
        if sorted(got_k) != sorted(want_k):
            w.flag('C02', 'sliver_from_graph', {'symptom': 'children', 'what': what, 'cls': c},
                   '%s: sliver has %s %s, the model has %s' %
                   (path, what, sorted(str(getattr(x, 'resource_name', x)) for x in got_k.values()),
                    sorted(str(st.name(x)) for x in want_k)))
            return
        for k in sorted(want_k):
            compare_sliver(w, st, got_k[k], k, path + '/' + str(st.name(k)), depth + 1)


def sliver_children(sl):
    out = {}
    for attr, sub in (('attached_components_info', 'devices'), ('network_service_info', 'network_services'),
                      ('interface_info', 'interfaces')):
        info = getattr(sl, attr, None)
        if info is not None:
            for x in getattr(info, sub).values():
                out[(attr, x.resource_name)] = x
    return out


def sliver_tree_diff(a, b, path):
    """None if sliver b has the structure and property values of sliver a (children matched by kind and name)"""
    pa, pb = props_dict_of(a), props_dict_of(b)
    for k in sorted(set(pa) | set(pb)):
        if pa.get(k) is None and pb.get(k) is None:
            continue
        if k not in pa or k not in pb or not jeq(pa[k], pb[k]):
            return (k, '%s: property %s %r -> %r' % (path, k, pa.get(k), pb.get(k)))
    ca, cb = sliver_children(a), sliver_children(b)
    if sorted(ca) != sorted(cb):
        return ('children', '%s: children %s -> %s' % (path, sorted(ca), sorted(cb)))
    for k in sorted(ca):
        d = sliver_tree_diff(ca[k], cb[k], path + '/' + str(k[1]))
        if d:
            return d
    return None


def dict_roundtrip(w, sliver, kind, path):
    from fim.graph.abc_property_graph import ABCPropertyGraph as G
    from fim.slivers.json import JSONSliver
    d1 = G.sliver_to_dict(sliver)
    js = JSONSliver.sliver_to_json(sliver)
    d = json.loads(js)
    if kind == 'node':
        back = JSONSliver.node_sliver_from_json(js)
    elif kind == 'service':
        back = JSONSliver.network_service_sliver_from_json(js)
    elif kind == 'component':
        back = G.build_deep_component_sliver_from_dict(props=d)
    elif kind == 'interface':
        back = G.build_deep_interface_sliver_from_dict(props=d)
    else:
        back = G.build_deep_link_sliver_from_dict(props=d)
    d2 = G.sliver_to_dict(back)
    # independent of sliver_to_dict: walk the two sliver trees side by side
    diff = sliver_tree_diff(sliver, back, path)
    if diff:
        w.flag('C02', 'sliver_dict_json', {'kind': kind, 'field': diff[0]},
               '%s: sliver -> dict -> JSON -> sliver loses or changes %s' % (path, diff[1]))
        return

    def norm(x):
        if isinstance(x, dict):
            return {k: norm(v) for k, v in x.items()}
        if isinstance(x, list):
            return sorted((norm(v) for v in x), key=canon)
        if isinstance(x, str):
            try:
                return {'_json': json.loads(x)} if x[:1] in '{[' else x
            except Exception:
                return x
        return x
    if canon(norm(d1)) != canon(norm(d2)):
        ks = [k for k in sorted(set(d1) | set(d2)) if canon(norm(d1.get(k))) != canon(norm(d2.get(k)))]
        w.flag('C02', 'sliver_dict_json', {'kind': kind, 'field': ks[0] if ks else '?'},
               '%s: sliver -> dict -> JSON -> sliver changes %s: %s -> %s' %
               (path, ks[:3], canon(norm(d1.get(ks[0])))[:200] if ks else '', canon(norm(d2.get(ks[0])))[:200] if ks else ''))


@op('get_sliver', 'read')
def g_get_sliver(w, rng, st):
    t = pick_target(w, rng, st)
    if t is None:
        return None
    kind, ref, nid = t
    return {'kind': kind, 'ref': ref}


@op('get_sliver', 'read')
def x_get_sliver(w, s, st, info):
    e = get_element(w, s['kind'], s['ref'])
    sl = e.get_sliver()
    path = '%s %s' % (s['kind'], st.name(e.node_id))
    compare_sliver(w, st, sl, e.node_id, path)
    if not w.pending:
        dict_roundtrip(w, sl, s['kind'], path)
    w.stats.inc('probe.get_sliver.%s' % s['kind'])


# ================================================================ edits that matter to sliver comparison (C17)
@op('edit_tracked', 'add')
def g_edit_tracked(w, rng, st):
    ts = [t for t in element_targets(st) if t[0] in ('node', 'component', 'interface', 'service')]
    if not ts:
        return None
    # components that carry dedicated ports first (a combined property + sub-interface edit is the interesting case)
    smart = [t for t in ts if t[0] == 'component' and st.typ(t[2]) == 'SmartNIC']
    kind, ref, nid = rng.choice(smart) if smart and rng.random() < 0.5 else rng.choice(ts)
    name = rng.choice(['labels', 'capacities', 'user_data'])
    return {'kind': kind, 'ref': ref, 'name': name, 'val': gen_value(rng, name, kind)}


@op('edit_tracked', 'add')
def x_edit_tracked(w, s, st, info):
    e = get_element(w, s['kind'], s['ref'])
    e.set_property(s['name'], build_value(s['val']))


@op('respell_user_data', 'add')
def g_respell_user_data(w, rng, st):
    ts = [t for t in element_targets(st) if 'UserData' in st.n[t[2]] and t[0] != 'link']
    if not ts:
        return None
    kind, ref, nid = rng.choice(ts)
    return {'kind': kind, 'ref': ref, 'style': rng.choice(['compact', 'reversed', 'spaced'])}


@op('respell_user_data', 'add')
def x_respell_user_data(w, s, st, info):
    """store the same user data value under another JSON spelling (key order / whitespace)"""
    from fim.slivers.json_data import UserData
    e = get_element(w, s['kind'], s['ref'])
    cur = e.get_property('user_data')
    if cur is None:
        raise SkipStep()
    data = cur.data
    if isinstance(data, dict) and s['style'] == 'reversed':
        text = json.dumps({k: data[k] for k in reversed(list(data))})
    elif s['style'] == 'compact':
        text = json.dumps(data, separators=(',', ':'))
    else:
        text = json.dumps(data, indent=1)
    e.set_property('user_data', UserData(text))
    got = e.get_property('user_data')
    if got is None or canon(got.data) != canon(data):
        w.flag('C02', 'prop_set_get', {'kind': s['kind'], 'name': 'user_data', 'via': 'respelled'},
               'user data %s stored as %r reads back %r' % (canon(data), text, got))


# ================================================================ deep sliver written into another graph and rebuilt
@op('sliver_copy', 'read')
def g_sliver_copy(w, rng, st):
    nodes = st.of_class('NetworkNode')
    if not nodes:
        return None
    # nodes with the richest containment first
    nodes.sort(key=lambda n: -len(st.own_node(n)))
    n = nodes[0] if rng.random() < 0.5 else rng.choice(nodes)
    w.idc += 1
    return {'node': st.name(n), 'tag': 'cp%d' % w.idc}


@op('sliver_copy', 'read')
def x_sliver_copy(w, s, st, info):
    """get_sliver() of a node, written as a deep sliver into a fresh graph (new ids), rebuilt from there, compared"""
    from fim.graph.slices.networkx_asm import NetworkxASM
    ids = [n for n in st.by_name('NetworkNode', s['node'])]
    _exists_or_skip(ids)
    own = st.own_node(ids[0])
    names = {}
    for x in own:          # children must be unique by (kind, name) for the tree comparison
        key = (st.cls(x), st.name(x), tuple(sorted(st.service_of_cp(x) + st.parent_cp(x) + st.owner_of_service(x) +
                                                   st.node_of_component(x))) if x != ids[0] else ())
        if key in names:
            raise SkipStep()
        names[key] = x
    e = get_node(w, s['node'])
    sl = e.get_sliver()
    tag = s['tag']

    def retag(x):
        x.node_id = '%s-%s' % (tag, x.node_id)
        for c in sliver_children(x).values():
            retag(c)
    retag(sl)
    gid = 'scratch-' + tag
    asm = NetworkxASM(graph_id=gid, importer=w.imp)
    try:
        asm.add_network_node_sliver(sliver=sl)
        back = asm.build_deep_node_sliver(node_id=sl.node_id)
    except Exception as ex:
        w.flag('C02', 'sliver_from_graph', {'symptom': 'deep_write_raised', 'exc': type(ex).__name__},
               'writing the deep sliver of node %s into a fresh graph (or rebuilding it) raised %s: %s' %
               (s['node'], type(ex).__name__, str(ex)[:200]))
        w.imp.delete_graph(graph_id=gid)
        return
    d = sliver_tree_diff(sl, back, 'node %s' % s['node'])
    if d:
        w.flag('C02', 'sliver_from_graph', {'symptom': 'deep_write', 'field': d[0]},
               'a deep sliver written into a graph and rebuilt from it differs: %s' % d[1])
    else:
        ids_a = sorted(x.node_id for x in walk(sl))
        ids_b = sorted(x.node_id for x in walk(back))
        if ids_a != ids_b:
            w.flag('C02', 'sliver_from_graph', {'symptom': 'deep_write_ids'}, 'node ids differ after the deep write: %s vs %s' %
                   (ids_a[:4], ids_b[:4]))
    w.imp.delete_graph(graph_id=gid)
    w.stats.inc('probe.sliver_copy')


def walk(sl):
    yield sl
    for c in sliver_children(sl).values():
        for x in walk(c):
            yield x
