"""
Abstract state of one model graph read white-box from the in-memory store
(not through the API under test), and an independent structural reading of it
(containment, ownership, peers) written from the docstrings of the model.
"""
import json

from .kernel import canon

CLASS, NODE_ID, GRAPH_ID, NAME, TYPE = 'Class', 'NodeID', 'GraphID', 'Name', 'Type'


def _safe(d):
    """property dict with JSON-able keys (networkx bookkeeping may use tuples as keys)"""
    out = {}
    for k, v in d.items():
        out[k if isinstance(k, str) else repr(k)] = _safe(v) if isinstance(v, dict) else v
    return out


def graph_state(importer, graph_id):
    """-> {'nodes': {nid: [props,...]}, 'edges': {'a~b': props}} for one graph id (GraphID dropped from props)"""
    inst = importer.storage.storage_instance
    G = inst.graphs
    nodes, edges = {}, {}
    if hasattr(G, 'nodes'):          # shared store: one nx.Graph for everything
        sel = [n for n, d in G.nodes(data=True) if d.get(GRAPH_ID) == graph_id]
        selset = set(sel)
        for n in sel:
            d = dict(G.nodes[n])
            d.pop(GRAPH_ID, None)
            nodes.setdefault(str(d.get(NODE_ID)), []).append(d)
        for a, z, d in G.edges(selset, data=True):
            if a in selset and z in selset:
                k = '~'.join(sorted({str(G.nodes[a].get(NODE_ID)), str(G.nodes[z].get(NODE_ID))}))
                edges[k] = _safe(d)
    else:
        g = G.get(graph_id) if graph_id in G else None
        if g is not None:
            for n, d in g.nodes(data=True):
                d = dict(d)
                d.pop(GRAPH_ID, None)
                nodes.setdefault(str(d.get(NODE_ID)), []).append(d)
            for a, z, d in g.edges(data=True):
                k = '~'.join(sorted({str(g.nodes[a].get(NODE_ID)), str(g.nodes[z].get(NODE_ID))}))
                edges[k] = _safe(d)
    return {'nodes': nodes, 'edges': edges}


def other_graphs_state(importer, graph_id):
    """canonical text of everything in the store that is NOT graph_id (for isolation checks)"""
    inst = importer.storage.storage_instance
    G = inst.graphs
    out = []
    if hasattr(G, 'nodes'):
        for n, d in G.nodes(data=True):
            if d.get(GRAPH_ID) != graph_id:
                out.append(canon(d))
    else:
        for gid, g in G.items():
            if gid != graph_id:
                for n, d in g.nodes(data=True):
                    out.append(canon(d))
    return sorted(out)


def state_diff(a, b, na='after', nb='before', limit=6):
    out = []
    for part in ('nodes', 'edges'):
        for k in sorted(set(a[part]) | set(b[part])):
            x, y = a[part].get(k), b[part].get(k)
            if canon(x) != canon(y):
                if x is None:
                    out.append('%s %s only %s: %s' % (part[:-1], k, nb, canon(y)[:160]))
                elif y is None:
                    out.append('%s %s only %s: %s' % (part[:-1], k, na, canon(x)[:160]))
                else:
                    dx = x[0] if isinstance(x, list) and x else x
                    dy = y[0] if isinstance(y, list) and y else y
                    if isinstance(dx, dict) and isinstance(dy, dict):
                        ch = ['%s: %r -> %r' % (p, dy.get(p), dx.get(p)) for p in sorted(set(dx) | set(dy))
                              if canon(dx.get(p)) != canon(dy.get(p))]
                        out.append('%s %s changed (%s->%s): %s' % (part[:-1], k, nb, na, '; '.join(ch)[:240]))
                    else:
                        out.append('%s %s differs' % (part[:-1], k))
    return ' | '.join(out[:limit]) + (' ... (%d differences)' % len(out) if len(out) > limit else '')


class Struct:
    """structural reading of an abstract graph state"""

    def __init__(self, state):
        self.state = state
        self.n = {}
        self.dups = []
        for nid, lst in state['nodes'].items():
            self.n[nid] = lst[0]
            if len(lst) > 1:
                self.dups.append(nid)
        self.adj = {nid: [] for nid in self.n}
        for k, p in state['edges'].items():
            parts = k.split('~')
            a, z = (parts[0], parts[0]) if len(parts) == 1 else (parts[0], parts[1])
            rel = p.get(CLASS)
            if a in self.adj:
                self.adj[a].append((z, rel))
            if z in self.adj and z != a:
                self.adj[z].append((a, rel))

    def cls(self, n):
        return self.n[n].get(CLASS)

    def typ(self, n):
        return self.n[n].get(TYPE)

    def name(self, n):
        return self.n[n].get(NAME)

    def of_class(self, c):
        return sorted(n for n in self.n if self.cls(n) == c)

    def nb(self, n, rel=None, cls=None):
        return sorted(m for m, r in self.adj.get(n, []) if (rel is None or r == rel) and m in self.n and
                      (cls is None or self.cls(m) == cls))

    # ---- ownership
    def node_of_component(self, c):
        return [m for m in self.nb(c, 'has') if self.cls(m) in ('NetworkNode', 'CompositeNode')]

    def components_of(self, node):
        return self.nb(node, 'has', 'Component')

    def services_of(self, parent):
        return self.nb(parent, 'has', 'NetworkService')

    def owner_of_service(self, s):
        return [m for m in self.nb(s, 'has') if self.cls(m) in ('NetworkNode', 'CompositeNode', 'Component')]

    def cps_of_service(self, s):
        return self.nb(s, 'connects', 'ConnectionPoint')

    def service_of_cp(self, cp):
        return self.nb(cp, 'connects', 'NetworkService')

    def is_sub(self, cp):
        return self.typ(cp) == 'SubInterface'

    def parent_cp(self, cp):
        """parent interface(s) of a sub-interface"""
        if not self.is_sub(cp):
            return []
        return [m for m in self.nb(cp, 'connects', 'ConnectionPoint') if not self.is_sub(m)]

    def child_cps(self, cp):
        return [m for m in self.nb(cp, 'connects', 'ConnectionPoint') if self.is_sub(m)]

    def links_of_cp(self, cp):
        return self.nb(cp, 'connects', 'Link')

    def cps_of_link(self, l):
        return self.nb(l, 'connects', 'ConnectionPoint')

    def peers(self, cp):
        out = []
        for l in self.links_of_cp(cp):
            out.extend(m for m in self.cps_of_link(l) if m != cp)
        return sorted(out)

    def owner_node_of_service(self, s):
        for o in self.owner_of_service(s):
            if self.cls(o) == 'Component':
                ns = self.node_of_component(o)
                return ns[0] if ns else None
            return o
        return None

    def owner_node_of_cp(self, cp):
        if self.is_sub(cp):
            ps = self.parent_cp(cp)
            if not ps:
                return None
            cp = ps[0]
        ss = self.service_of_cp(cp)
        if not ss:
            return None
        return self.owner_node_of_service(ss[0])

    # ---- owned closure (for removals)
    def own_cp(self, cp):
        out = {cp}
        for c in self.child_cps(cp):
            out.add(c)
        return out

    def own_service(self, s):
        out = {s}
        for cp in self.cps_of_service(s):
            out |= self.own_cp(cp)
        return out

    def own_component(self, c):
        out = {c}
        for s in self.services_of(c):
            out |= self.own_service(s)
        return out

    def own_node(self, n):
        out = {n}
        for c in self.components_of(n):
            out |= self.own_component(c)
        for s in self.services_of(n):
            out |= self.own_service(s)
        return out

    # ---- views
    def node_interfaces(self, node, direct_only=False):
        """ids of interfaces of a node: CPs of node-level services (+ CPs of component services)"""
        out = []
        for s in self.services_of(node):
            out.extend(self.cps_of_service(s))
        if not direct_only:
            for c in self.components_of(node):
                for s in self.services_of(c):
                    out.extend(self.cps_of_service(s))
        return sorted(out)

    def component_interfaces(self, c):
        out = []
        for s in self.services_of(c):
            out.extend(self.cps_of_service(s))
        return sorted(out)

    def by_name(self, cls, name, within=None):
        return [n for n in (within if within is not None else self.of_class(cls)) if self.cls(n) == cls and
                self.name(n) == name]


def jprop(props, name):
    v = props.get(name)
    if v is None or v == '' or v == 'None':
        return None
    try:
        return json.loads(v)
    except Exception:
        return v
