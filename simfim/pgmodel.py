"""
PGModel — executable reference model of the documented ABCPropertyGraph
interface (docstrings at fim/graph/abc_property_graph.py:133-432), store level:
nodes are keyed by (GraphID, NodeID) so that node merging across graphs, which
creates edges between graphs, is representable.

Rules marked PINNED are not stated by the documentation; both in-memory
backends agree on them on the pinned tree and the model follows them, so they
act as regression oracles, not specification claims.  They are listed in
PINNED_RULES and repeated in the evidence.
"""
import json

QE = 'QueryException'
IE = 'ImportException'
AE = 'AssertionError'

CLASS = 'Class'
NODE_ID = 'NodeID'
GRAPH_ID = 'GraphID'
NO_UNSET = ('GraphID', 'NodeID', 'Type', 'Class', 'Name')
JSON_PROPERTY_NAMES = ["Labels", "Capacities", "LabelDelegations", "CapacityDelegations",
                       "LabelAllocations", "CapacityAllocations", "ReservationInfo", "StructuralInfo",
                       "ERO", "PathInfo", "CapacityHints", "Gateway", "Tags", "Flags", "MeasurementData",
                       "UserData", "LayoutData", "PeerLabels", "MaintenanceInfo"]

PINNED_RULES = [
    "add_link on an already linked pair overwrites the relation and merges the given properties into the existing edge",
    "unset_node_property of a property that is not set raises a query exception; unset_link_property of one that is not set is a no-op",
    "list_all_node_ids / update_nodes_property on a graph without nodes raise a query exception",
    "merge_nodes keeps only the caller's property names; a property only on the other node is dropped",
    "merge_nodes moves every edge of the other node to the caller's node and removes the other node from its graph",
    "import under an id not yet stored: nodes keyed by their NodeID, GraphID stamped (non-direct entry points)",
    "an import whose text has no nodes, is malformed, or (non-direct) lacks a NodeID raises an import exception and stores nothing",
]


class ModelExc(Exception):
    def __init__(self, kind):
        super().__init__(kind)
        self.kind = kind


class PGModel:
    def __init__(self):
        self.nodes = {}   # (gid, nid) -> props (incl. Class, NodeID, GraphID)
        self.edges = {}   # frozenset({(gid,nid),(gid,nid)}) -> props (incl. Class)

    # ---- helpers
    def copy(self):
        m = PGModel()
        m.nodes = {k: dict(v) for k, v in self.nodes.items()}
        m.edges = {k: dict(v) for k, v in self.edges.items()}
        return m

    def gnodes(self, g):
        return [k for k in self.nodes if k[0] == g]

    def _need(self, g, nid):
        if (g, nid) not in self.nodes:
            raise ModelExc(QE)
        return self.nodes[(g, nid)]

    def _edge(self, g, a, b):
        self._need(g, a)
        self._need(g, b)
        e = self.edges.get(frozenset({(g, a), (g, b)}))
        if e is None:
            raise ModelExc(QE)
        return e

    def neighbors(self, key):
        out = []
        for ek, props in self.edges.items():
            if key in ek:
                other = [x for x in ek if x != key]
                out.append((other[0] if other else key, props))
        return out

    def abstract(self):
        """store abstract state: nodes {(g,n): [props]}, edges {sorted pair: props}"""
        nodes = {}
        for (g, n), p in self.nodes.items():
            nodes['%s|%s' % (g, n)] = [p]
        edges = {}
        for ek, p in self.edges.items():
            ks = sorted('%s|%s' % k for k in ek)
            edges['~'.join(ks)] = p
        return {'nodes': nodes, 'edges': edges}

    # ---- structure
    def add_node(self, g, nid, label, props):
        if (g, nid) in self.nodes:
            raise ModelExc(QE)
        d = {GRAPH_ID: g, CLASS: label, NODE_ID: nid}
        if props:
            d.update(props)
        self.nodes[(g, nid)] = d

    def delete_node(self, g, nid):
        self._need(g, nid)
        del self.nodes[(g, nid)]
        for ek in [ek for ek in self.edges if (g, nid) in ek]:
            del self.edges[ek]

    def add_link(self, g, a, rel, b, props):
        self._need(g, a)
        self._need(g, b)
        e = self.edges.setdefault(frozenset({(g, a), (g, b)}), {})
        e[CLASS] = rel
        if props:
            e.update(props)

    # ---- node properties
    def get_node_properties(self, g, nid):
        p = dict(self._need(g, nid))
        label = p.pop(CLASS)
        return [[label], p]

    def get_node_json_property_as_object(self, g, nid, name):
        p = self._need(g, nid)
        v = p.get(name) if name != CLASS else None
        if v is None:
            return None
        try:
            return json.loads(v)
        except json.decoder.JSONDecodeError:
            raise ModelExc(QE)

    def update_node_property(self, g, nid, name, val):
        if name == CLASS:
            raise ModelExc(QE)
        self._need(g, nid)[name] = val

    def unset_node_property(self, g, nid, name):
        if name in NO_UNSET:
            raise ModelExc(QE)
        p = self._need(g, nid)
        if name not in p:
            raise ModelExc(QE)   # PINNED
        del p[name]

    def update_nodes_property(self, g, name, val):
        ks = self.gnodes(g)
        if not ks:
            raise ModelExc(QE)   # PINNED
        if name == CLASS:
            raise ModelExc(QE)
        for k in ks:
            self.nodes[k][name] = val

    def update_node_properties(self, g, nid, props):
        if CLASS in props:
            raise ModelExc(QE)
        self._need(g, nid).update(props)

    # ---- link properties
    def get_link_properties(self, g, a, b):
        e = dict(self._edge(g, a, b))
        kind = e.pop(CLASS)
        return [kind, e]

    def update_link_property(self, g, a, b, kind, name, val):
        if name == CLASS:
            raise ModelExc(QE)
        e = self._edge(g, a, b)
        if e.get(CLASS) != kind:
            raise ModelExc(QE)
        e[name] = val

    def unset_link_property(self, g, a, b, kind, name):
        if name == CLASS:
            raise ModelExc(QE)
        e = self._edge(g, a, b)
        if e.get(CLASS) != kind:
            raise ModelExc(QE)
        e.pop(name, None)    # PINNED

    def update_link_properties(self, g, a, b, kind, props):
        if CLASS in props:
            raise ModelExc(QE)
        e = self._edge(g, a, b)
        if e.get(CLASS) != kind:
            raise ModelExc(QE)
        e.update(props)

    # ---- reads
    def list_all_node_ids(self, g):
        ks = self.gnodes(g)
        if not ks:
            raise ModelExc(QE)   # PINNED
        return sorted(k[1] for k in ks)

    def get_all_nodes_by_class(self, g, label):
        return sorted(k[1] for k in self.gnodes(g) if self.nodes[k].get(CLASS) == label)

    def get_all_nodes_by_class_and_type(self, g, label, ntype):
        return sorted(k[1] for k in self.gnodes(g)
                      if self.nodes[k].get(CLASS) == label and self.nodes[k].get('Type') == ntype)

    def node_exists(self, g, nid, label):
        return (g, nid) in self.nodes and self.nodes[(g, nid)].get(CLASS) == label

    def check_node_unique(self, g, label, name):
        return not any(self.nodes[k].get(CLASS) == label and self.nodes[k].get('Name') == name
                       for k in self.gnodes(g))

    def graph_exists(self, g):
        return bool(self.gnodes(g))

    def get_stitch_nodes(self, g):
        return sorted(k[1] for k in self.gnodes(g) if self.nodes[k].get('StitchNode') == 'true')

    def validate_graph(self, g):
        ks = self.gnodes(g)
        if not ks:
            raise ModelExc(QE)
        for k in ks:
            p = self.nodes[k]
            for name in JSON_PROPERTY_NAMES:
                v = p.get(name)
                if v is not None and len(v) > 0 and v != 'None':
                    if not isinstance(v, str):
                        # a 'combine' merge left a list under a JSON-typed name: both backends hand it to json.loads
                        raise ModelExc('other:TypeError')
                    try:
                        json.loads(v)
                    except json.decoder.JSONDecodeError:
                        raise ModelExc(IE)
        return None

    # ---- cross graph
    def find_matching_nodes(self, g, h):
        a = set(k[1] for k in self.gnodes(g))
        if not a:
            raise ModelExc(QE)
        b = set(k[1] for k in self.gnodes(h))
        return sorted(a & b)

    def merge_nodes(self, g, h, nid, policy):
        if not self.gnodes(h):
            raise ModelExc(AE)
        own = self._need(g, nid)
        if (h, nid) not in self.nodes:
            raise ModelExc(QE)
        other = self.nodes[(h, nid)]
        if policy is None:
            new = dict(own)
        else:
            new = {}
            for k, v in own.items():
                pol = policy.get(k)
                if pol is None or pol == 'discard':
                    new[k] = v
                elif pol == 'overwrite':
                    new[k] = other[k]
                elif pol == 'combine':
                    new[k] = [v, other[k]]
                else:
                    new[k] = None
        # every edge of the other node moves to the caller's node
        for ek in [ek for ek in self.edges if (h, nid) in ek]:
            props = self.edges.pop(ek)
            rest = [x for x in ek if x != (h, nid)]
            tgt = rest[0] if rest else (g, nid)
            nk = frozenset({(g, nid), tgt})
            if nk not in self.edges:
                self.edges[nk] = props
        del self.nodes[(h, nid)]
        self.nodes[(g, nid)] = new

    def clone_graph(self, g, new):
        ks = self.gnodes(g)
        self.delete_graph(new)
        for k in ks:
            p = dict(self.nodes[k])
            p[GRAPH_ID] = new
            self.nodes[(new, k[1])] = p
        for ek, props in list(self.edges.items()):
            if all(x[0] == g for x in ek):
                self.edges[frozenset((new, x[1]) for x in ek)] = dict(props)

    def delete_graph(self, g):
        for k in self.gnodes(g):
            del self.nodes[k]
        for ek in [ek for ek in self.edges if any(x[0] == g for x in ek)]:
            del self.edges[ek]

    def import_desc(self, g, desc, direct):
        """desc: {'nodes': [[key, props]], 'edges': [[k1, k2, props]]}; returns graph id used"""
        nodes = desc['nodes']
        if not nodes:
            raise ModelExc(IE)
        if direct:
            gids = set()
            for _, p in nodes:
                if GRAPH_ID not in p:
                    raise ModelExc(IE)
                gids.add(p[GRAPH_ID])
            if len(gids) > 1:
                raise ModelExc(IE)
            g = gids.pop()
        else:
            for _, p in nodes:
                if not p.get(NODE_ID):
                    raise ModelExc(IE)
        self.delete_graph(g)
        keymap = {}
        for key, p in nodes:
            d = dict(p)
            if not direct:
                d[GRAPH_ID] = g
            keymap[key] = (g, d[NODE_ID])
            self.nodes[(g, d[NODE_ID])] = d
        for k1, k2, p in desc['edges']:
            self.edges[frozenset({keymap[k1], keymap[k2]})] = dict(p)
        return g
