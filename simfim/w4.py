"""
W4 — the persistent-backend world (C19).  The real Neo4jGraphImporter /
Neo4jPropertyGraph / Neo4jASM / Neo4jCBMGraph run against an in-process fake
driver that records every (statement text, parameters) pair and answers with
PRNG-scripted results of the shape each call site consumes; transient and
persistent driver failures are injected into graph import, whose retry loop
sleeps on a simulated clock.  Oracle: a structural checker for the Cypher
subset FIM emits (it accepts what it does not understand: it can miss, not
invent, a defect) plus marker tokens for data independence.
"""
import json
import os
import re

from .kernel import World, Violation, SkipStep, HarnessError, canon, h8
from .values import wchoice
from . import seams

CLASSES = ['NetworkNode', 'Component', 'NetworkService', 'ConnectionPoint', 'Link']
RELS = ['has', 'connects']
PROP_NAMES = ['Name', 'Type', 'Site', 'Capacities', 'Labels', 'Details', 'Model', 'StitchNode']
NASTY = ["it's", 'say "hi"', 'back\\slash', "end\\", '{brace}', '${dollar}', "a' OR 1=1 //", 'line\nbreak',
         'MATCH (n) DETACH DELETE n', "'", '"', '\\', "x'}) RETURN 1 //", '`tick`', 'plain', 'ünï', "})", "''", '""']


class FakeDriverError(Exception):
    pass


class FakeRecord:
    def __init__(self, shape, rng):
        self.shape = shape
        self.rng = rng

    def _val(self, key):
        k = key.lower()
        if 'labels' in k:
            return ['GraphNode', 'NetworkNode']
        if 'properties' in k:
            return {'NodeID': 'n1', 'Name': 'x', 'Class': 'NetworkNode', 'GraphID': 'g', 'Type': 'Server',
                    'StructuralInfo': '{"adm_graph_ids": ["a"]}'}
        if 'type' in k:
            return 'has'
        if k == 'data':
            return '<graphml xmlns="http://graphml.graphdrawing.org/xmlns"><graph edgedefault="directed"/></graphml>'
        if self.shape == 'empty':
            return []
        return ['n1', 'n2']

    def data(self):
        rec = self

        class D(dict):
            def __missing__(self, key):
                return rec._val(key)

            def __len__(self):
                return 0 if rec.shape == 'empty_record' else 1
        return D()

    def value(self, *a):
        return ['n1'] if self.shape != 'empty' else []

    def get(self, key, default=None):
        return self._val(key)

    def __getitem__(self, key):
        return self._val(key if isinstance(key, str) else 'nodeids')


class FakeResult:
    def __init__(self, shape, rng):
        self.shape = shape
        self.rng = rng

    def single(self):
        return None if self.shape == 'none' else FakeRecord(self.shape, self.rng)

    def peek(self):
        return None if self.shape in ('none', 'empty') else FakeRecord(self.shape, self.rng)

    def value(self, *a):
        return [] if self.shape in ('none', 'empty') else ['n1', 'n2']

    def values(self, *a):
        return [] if self.shape in ('none', 'empty') else [['n1', 'n2'], ['n3', 'n4']]

    def data(self, *a):
        if self.shape in ('none',):
            return None
        return [{'nodes': [{'NodeID': 'n1', 'Name': 'x'}], 'nodes1': [{'NodeID': 'n1', 'Name': 'x'}]}]

    def __iter__(self):
        if self.shape in ('none', 'empty'):
            return iter([])
        return iter([FakeRecord(self.shape, self.rng)])


class FakeSession:
    def __init__(self, drv):
        self.drv = drv

    def __enter__(self):
        return self

    def __exit__(self, *a):
        return False

    def run(self, query, parameters=None, **params):
        drv = self.drv
        p = dict(parameters or {})
        p.update(params)
        drv.history.append((query, p))
        # scripted failures of the import statement
        if 'apoc.import.graphml' in query and drv.import_failures_left != 0:
            if drv.import_failures_left > 0:
                drv.import_failures_left -= 1
            drv.stats.inc('faults.driver.import_failure')
            raise FakeDriverError('transient failure injected into apoc.import.graphml')
        if drv.index_fail and query.strip().upper().startswith('CREATE'):
            drv.stats.inc('faults.driver.index_exists')
            raise FakeDriverError('index exists')
        shape = drv.next_shape()
        return FakeResult(shape, drv.rng)

    def close(self):
        pass


class FakeDriver:
    def __init__(self, rng, stats):
        self.rng = rng
        self.stats = stats
        self.history = []
        self.import_failures_left = 0     # -1 = persistent
        self.index_fail = False
        self.force_shape = None
        self.replay_shapes = None
        self.replay_pos = 0
        self.shapes_used = []

    def next_shape(self):
        if self.force_shape:
            return self.force_shape
        if self.replay_shapes is not None:
            # second execution of the same call with other values: the driver answers exactly as it did the first time
            self.replay_pos += 1
            return self.replay_shapes[self.replay_pos - 1] if self.replay_pos <= len(self.replay_shapes) else 'populated'
        r = self.rng.random()
        s = 'populated' if r < 0.7 else 'empty' if r < 0.85 else 'none'
        self.stats.inc('faults.driver.result_%s' % s)
        self.shapes_used.append(s)
        return s

    def verify_connectivity(self):
        return True

    def session(self, **kw):
        return FakeSession(self)

    def close(self):
        pass


class FakeGraphDatabase:
    current = None

    @staticmethod
    def driver(url, auth=None, **kw):
        return FakeGraphDatabase.current


class SimTime:
    def __init__(self, real):
        self._real = real
        self.now = 0.0
        self.sleeps = []

    def sleep(self, s):
        self.now += s
        self.sleeps.append(s)

    def __getattr__(self, name):
        return getattr(self._real, name)


# ---------------------------------------------------------------------------------------- statement checker
def scan(text):
    """
    -> (outside, literals, problem): `outside` is the text with every string literal replaced by blanks of the same
    length; `literals` is a list of (start, end, quote, unescaped content); problem = 'unterminated' or None
    """
    out = []
    lits = []
    i, n = 0, len(text)
    while i < n:
        c = text[i]
        if c in ('"', "'"):
            q = c
            j = i + 1
            buf = []
            closed = False
            while j < n:
                d = text[j]
                if d == '\\' and j + 1 < n:
                    e = text[j + 1]
                    buf.append({'t': '\t', 'n': '\n', 'r': '\r', 'b': '\b', 'f': '\f'}.get(e, e))
                    j += 2
                    continue
                if d == q:
                    closed = True
                    break
                buf.append(d)
                j += 1
            if not closed:
                return ''.join(out), lits, 'unterminated string literal starting at %d: %s' % (i, text[i:i + 40])
            lits.append((i, j, q, ''.join(buf)))
            out.append(' ' * (j - i + 1))
            i = j + 1
        elif c == '`':
            j = text.find('`', i + 1)
            if j < 0:
                return ''.join(out), lits, 'unterminated back-ticked name'
            out.append(' ' * (j - i + 1))
            i = j + 1
        else:
            out.append(c)
            i += 1
    return ''.join(out), lits, None


def check_statement(text, params):
    """list of (oracle, symptom, detail) structural problems of one statement"""
    probs = []
    outside, lits, p = scan(text)
    if p:
        return [('stmt_balanced', 'quotes', p)], outside, lits
    # nested statement passed as a string literal to apoc (export query): check it as a statement of its own
    stack = []
    pairs = {')': '(', ']': '[', '}': '{'}
    for i, c in enumerate(outside):
        if c in '([{':
            stack.append((c, i))
        elif c in ')]}':
            if not stack or stack[-1][0] != pairs[c]:
                probs.append(('stmt_balanced', 'brackets', 'unbalanced %r at %d in: %s' % (c, i, text[max(0, i - 40):i + 20])))
                stack = None
                break
            stack.pop()
    if stack:
        c, i = stack[-1]
        probs.append(('stmt_balanced', 'brackets', 'unclosed %r at %d in: %s' % (c, i, text[max(0, i - 10):i + 50])))
    if '{{' in outside or '}}' in outside:
        probs.append(('stmt_no_template_residue', 'double_brace', 'doubled braces left in the statement: %s' % text[:160]))
    m = re.search(r'\{\s*[A-Za-z_][A-Za-z0-9_]*\s*\}', outside)
    if m:
        probs.append(('stmt_no_template_residue', 'placeholder',
                      'unexpanded template fragment %r in: %s' % (m.group(0), text[:160])))
    m = re.search(r'\b(?:WHERE|where|AND|and|OR|or)\s+(?:RETURN|return|WITH|with|ORDER|order)\b|\b(?:WHERE|where)\s*$', outside)
    if m:
        probs.append(('stmt_balanced', 'dangling_clause', 'clause without content %r in: %s' % (m.group(0), text[:200])))
    oq = list(outside)
    for (a, b, q, content) in lits:         # keep the delimiters of literals so that a literal counts as a token
        oq[a] = oq[b] = q
    m = re.search(r',\s*[\}\)\]]', ''.join(oq))
    if m:
        probs.append(('stmt_balanced', 'trailing_comma', 'dangling comma %r in: %s' % (m.group(0), text[:200])))
    # parameters named in the text are supplied
    for name in sorted(set(re.findall(r'\$([A-Za-z_][A-Za-z0-9_]*)', outside))):
        if name not in params:
            probs.append(('stmt_params_supplied', name, 'statement names $%s but the call supplies %s: %s' %
                          (name, sorted(params), text[:160])))
    # variable binding (structural; unknown constructs accepted)
    bound = set()
    for m in re.finditer(r'[\(\[]\s*([A-Za-z_][A-Za-z0-9_]*)\s*(?=[:\)\]\{ ])', outside):
        bound.add(m.group(1))
    for m in re.finditer(r'\b([A-Za-z_][A-Za-z0-9_]*)\s*=\s*(?:shortestPath|\()', outside):
        bound.add(m.group(1))
    for m in re.finditer(r'\b[Aa][Ss]\s+([A-Za-z_][A-Za-z0-9_]*)', outside):
        bound.add(m.group(1))
    for m in re.finditer(r'\b[Yy][Ii][Ee][Ll][Dd]\s+([A-Za-z0-9_,\s]+?)(?=\b(?:[Rr][Ee][Tt][Uu][Rr][Nn]|[Ww][Ii][Tt][Hh]|[Ww][Hh][Ee][Rr][Ee])\b|$)', outside):
        for v in m.group(1).split(','):
            v = v.strip().split(' ')[0]
            if v:
                bound.add(v)
    for m in re.finditer(r'\[\s*([A-Za-z_][A-Za-z0-9_]*)\s+[Ii][Nn]\b', outside):
        bound.add(m.group(1))
    for m in re.finditer(r'\b[Uu][Nn][Ww][Ii][Nn][Dd]\b.*?\b[Aa][Ss]\s+([A-Za-z_][A-Za-z0-9_]*)', outside):
        bound.add(m.group(1))
    used = set()
    for m in re.finditer(r'\b(?:properties|labels|type|nodes|relationships|id)\(\s*([A-Za-z_][A-Za-z0-9_]*)\s*\)', outside):
        used.add(m.group(1))
    for m in re.finditer(r'\b(?:SET|set|REMOVE|remove)\s+([A-Za-z_][A-Za-z0-9_]*)\s*(?:\+=|\.|:)', outside):
        used.add(m.group(1))
    for m in re.finditer(r'\b(?:RETURN|return)\s+([A-Za-z_][A-Za-z0-9_]*)\.([A-Za-z_])', outside):
        used.add(m.group(1))
    for m in re.finditer(r'\b(?:delete|DELETE)\s+([A-Za-z_][A-Za-z0-9_]*)', outside):
        used.add(m.group(1))
    for v in sorted(used - bound):
        probs.append(('stmt_vars_bound', v, 'variable %r is used but never bound in: %s' % (v, text[:200])))
    return probs, outside, lits


def check_markers(text, params, outside, lits, markers):
    """a stored value may reach the driver as a parameter or inside ONE literal whose unescaped content is the value"""
    probs = []
    for mk, value in markers.items():
        pos = text.find(mk)
        while pos >= 0:
            inside = [l for l in lits if l[0] < pos <= l[1]]
            if not inside:
                probs.append(('stmt_value_not_in_text', 'outside_literal',
                              'stored value %r appears in the statement text outside any literal: %s' %
                              (value, text[max(0, pos - 60):pos + 40])))
                break
            content = inside[0][3]
            if content != value and str(value) not in ('%s' % content,) and content != str(value):
                probs.append(('stmt_value_not_in_text', 'broken_literal',
                              'stored value %r was spliced into the text; the literal the parser sees there is %r: %s' %
                              (value, content[:60], text[max(0, inside[0][0] - 30):inside[0][1] + 30])))
                break
            pos = text.find(mk, pos + 1)
    return probs


class W4World(World):
    name = 'W4'

    @classmethod
    def draw_config(cls, rng, prop, tier):
        return {'prop': prop, 'steps': rng.randint(3, 8) if rng.random() < 0.3 else rng.randint(8, 30),
                'p_nasty': rng.choice([0.3, 0.6, 0.9]), 'avoid_known': rng.random() < 0.8,
                'mix': {'node_crud': 10, 'link_crud': 8, 'bulk': 6, 'query': 10, 'merge': 3, 'diff': 2, 'import': 5,
                        'asm': 4, 'cbm': 4, 'lifecycle': 3, 'sliver': 3},
                'step_cap': 80}

    def __init__(self, seed, cfg, log, stats, streams):
        self.seed, self.cfg, self.log, self.stats, self.streams = seed, cfg, log, stats, streams
        self.prop = cfg['prop']
        self.pending = []
        self.state_hashes = set()
        self.steps_done = 0
        self.mutations = 0
        self.mc = 0
        self.markers = {}
        self.avoid = seams.avoid_set() if cfg.get('avoid_known') else set()
        self.seam = seams.Seams(streams, stats)
        self.seam.install_uuid()
        self.scratch = self.seam.make_scratch()
        import fim.graph.neo4j_property_graph as npg
        self.npg = npg
        self._saved = (npg.GraphDatabase, npg.time, npg.Neo4jGraphImporter.index_initialized)
        self.drv = FakeDriver(streams.get('faults'), stats)
        FakeGraphDatabase.current = self.drv
        npg.GraphDatabase = FakeGraphDatabase
        self.clock = SimTime(npg.time)
        npg.time = self.clock
        npg.Neo4jGraphImporter.index_initialized = False
        self.drv.index_fail = streams.get('config').random() < 0.3
        self.imp = npg.Neo4jGraphImporter(url='bolt://sim', user='u', pswd='p', import_host_dir=self.scratch,
                                          import_dir='/imports')
        self.drv.index_fail = False
        self.check_history('connect')

    def close(self):
        npg = self.npg
        npg.GraphDatabase, npg.time, npg.Neo4jGraphImporter.index_initialized = self._saved
        try:
            self.imp.driver = None
        except Exception:
            pass
        self.seam.uninstall()

    def is_nontrivial(self):
        return self.mutations > 0

    def flag(self, oracle, sig, detail):
        self.pending.append(Violation('C19', oracle, sig, detail))

    def end_step(self):
        if self.pending:
            v = self.pending[0]
            self.pending = []
            raise v

    # ---- values with markers
    def val(self, rng, nasty=None):
        self.mc += 1
        mk = 'MK%dx' % self.mc
        if nasty is None:
            nasty = rng.random() < self.cfg['p_nasty']
        body = rng.choice(NASTY) if nasty else 'v'
        v = mk + body if rng.random() < 0.5 else body + mk
        return v

    def remember(self, v):
        if isinstance(v, (list, tuple, dict)):
            # a non-string value is stored as its string form ("value types must be convertible to string")
            sv = str(v)
            for mk in re.findall(r'MK\d+x', sv):
                self.markers[mk] = sv
            return
        m = re.search(r'MK\d+x', v) if isinstance(v, str) else None
        if m:
            self.markers[m.group(0)] = v

    # ------------------------------------------------------------------ generation
    def gen_step(self, rng):
        if self.steps_done >= self.cfg['steps']:
            return None
        self.steps_done += 1
        kind = wchoice(rng, self.cfg['mix'])
        v = lambda nasty=None: self.val(rng, nasty)

        def pv():
            # property values need not be strings: lists (what a 'combine' merge leaves behind) and numbers too
            r = rng.random()
            if r < 0.12:
                return [v() for _ in range(rng.randint(1, 2))]
            if r < 0.16:
                return rng.randint(0, 9)
            return v()
        gid = v() if rng.random() < 0.4 else 'g-%d' % rng.randint(1, 3)
        s = {'op': kind, 'gid': gid, 'shape': rng.choice([None, None, 'populated', 'empty', 'none'])}
        if kind == 'node_crud':
            s.update(call=rng.choice(['add_node', 'get_node_properties', 'update_node_property', 'unset_node_property',
                                      'delete_node', 'node_exists', 'get_node_json_property_as_object',
                                      'update_node_properties']),
                     node=v(), label=rng.choice(CLASSES), pname=rng.choice(PROP_NAMES),
                     pval=v(), props={rng.choice(PROP_NAMES): pv() for _ in range(rng.randint(1, 3))})
        elif kind == 'link_crud':
            s.update(call=rng.choice(['add_link', 'get_link_properties', 'update_link_property', 'unset_link_property',
                                      'update_link_properties']),
                     a=v(), b=v(), rel=rng.choice(RELS), pname=rng.choice(PROP_NAMES), pval=v(),
                     props={rng.choice(PROP_NAMES): pv() for _ in range(rng.randint(0, 2))})
        elif kind == 'bulk':
            s.update(call=rng.choice(['update_nodes_property', 'list_all_node_ids', 'get_all_nodes_by_class',
                                      'get_all_nodes_by_class_and_type', 'get_stitch_nodes', 'check_node_unique']),
                     label=rng.choice(CLASSES), pname=rng.choice(PROP_NAMES), pval=v(), ntype=v(), name=v())
        elif kind == 'query':
            s.update(call=rng.choice(['get_first_neighbor', 'get_first_and_second_neighbor', 'get_nodes_on_shortest_path',
                                      'get_nodes_on_path_with_hops', 'find_peer_connection_points', 'get_parent']),
                     node=v(), z=v(), rel=rng.choice(RELS), label=rng.choice(CLASSES), label2=rng.choice(CLASSES),
                     hops=[v() for _ in range(rng.randint(0, 2))], userel=rng.random() < 0.5)
        elif kind == 'merge':
            s.update(call=rng.choice(['merge_nodes', 'find_matching_nodes']), node=v(), gid2=v(),
                     policy=rng.choice([None, {'Name': 'discard'}, {'Capacities': 'overwrite', 'Name': 'combine'}]))
        elif kind == 'diff':
            s.update(call=rng.choice(['get_graph_diff', 'get_graph_property_diff']), gid2=v(), label=rng.choice(CLASSES))
        elif kind == 'import':
            s.update(call=rng.choice(['import_graph_from_string', 'import_graph_from_string_direct',
                                      'import_graph_from_file_direct']),
                     failures=rng.choice([0, 0, 1, 2, 5, 9, -1]), node=v(), name=v())
        elif kind == 'asm':
            s.update(call=rng.choice(['check_node_name', 'find_node_by_name']), node=v(), label=rng.choice(CLASSES), name=v())
        elif kind == 'cbm':
            s.update(call=rng.choice(['get_matching_nodes_with_components', 'get_matching_nodes_with_components',
                                      'get_delegations', 'get_intersite_links',
                                      'get_sites', 'get_disconnected_sites', 'get_connected_sites', 'get_facility_ports']),
                     node=v(), label='NetworkNode',
                     props={rng.choice(['Site', 'Type', 'Name']): v() for _ in range(rng.choice([0, 1, 1, 2]))},
                     ncomp=rng.randint(-1, 2), model=v(False))
        elif kind == 'lifecycle':
            s.update(call=rng.choice(['delete_graph', 'graph_exists', 'serialize_graph', 'validate_graph', 'clone_graph',
                                      'importer_delete_graph', 'cast_graph', 'delete_all_graphs']), gid2=v())
        elif kind == 'sliver':
            s.update(call=rng.choice(['add_network_node_sliver', 'add_interface_sliver']), node=v(False), name='nm%d' % self.mc,
                     details=v())
        return s

    # ------------------------------------------------------------------ execution
    def graph(self, gid, cls=None):
        cls = cls or self.npg.Neo4jPropertyGraph
        return cls(graph_id=gid, importer=self.imp)

    def exec_step(self, s):
        for k, v in s.items():
            if isinstance(v, str):
                self.remember(v)
            elif isinstance(v, dict):
                for vv in v.values():
                    self.remember(vv)
            elif isinstance(v, list):
                for vv in v:
                    self.remember(vv)
        self.drv.history = []
        self.drv.force_shape = s.get('shape')
        self.drv.shapes_used = []
        call = s['call']
        outcome = 'ok'
        try:
            self.invoke(s)
        except SkipStep:
            raise
        except HarnessError:
            raise
        except Exception as e:
            outcome = 'exc:' + type(e).__name__
        self.stats.inc('ops.%s.%s' % (call, 'ok' if outcome == 'ok' else 'raised'))
        self.check_history(call)
        self.check_props_arg(call)
        if not self.pending and s['op'] != 'import':
            self.check_data_independence(s, outcome)
        self.mutations += 1
        h = h8(canon([q for q, _ in self.drv.history]))
        self.state_hashes.add(h)
        self.log.add(self.cur_step, call, outcome, len(self.drv.history), h)
        self.end_step()

    def check_history(self, call):
        for text, params in self.drv.history:
            self.stats.inc('probe.statements')
            probs, outside, lits = check_statement(text, params)
            # a statement handed to apoc as a string ("with '<statement>' as query CALL apoc...") is a statement too
            nested = []
            for (a, b, q, content) in lits:
                if re.match(r'\s+as\s+query\b', text[b + 1:b + 20]):
                    p2, out2, lits2 = check_statement(content, dict(params))
                    probs.extend(p2)
                    probs.extend(check_markers(content, params, out2, lits2, self.markers))
                    nested.append((a, b))
            flat = [l for l in lits if (l[0], l[1]) not in nested]
            masked = text
            for a, b in nested:
                masked = masked[:a] + ' ' * (b - a + 1) + masked[b + 1:]
            probs.extend(check_markers(masked, params, outside, flat, self.markers))
            for oracle, sym, detail in probs:
                self.flag(oracle, {'call': call, 'symptom': sym if oracle != 'stmt_value_not_in_text' else sym},
                          '%s -> %s' % (call, detail))
                break

    VALUE_FIELDS = ('node', 'a', 'b', 'z', 'pval', 'gid', 'gid2', 'ntype', 'name')

    def check_data_independence(self, s, outcome):
        """The same call once more with every caller-supplied VALUE replaced by a harmless one (identifiers - classes,
        relations, property names - unchanged) and the driver answering exactly as before: the statements may differ
        only inside their string literals and parameters, and the call ends the same way (C19: the text depends only
        on identifiers, never on stored values)."""
        first = [(q, p) for q, p in self.drv.history]
        shapes = list(self.drv.shapes_used)

        def benign(v):
            if isinstance(v, list):
                return [benign(x) for x in v]
            if not isinstance(v, str):
                return v
            m = re.search(r'MK\d+x', v)
            return (m.group(0) + 'v') if m else v
        s2 = dict(s)
        for k in self.VALUE_FIELDS:
            if k in s2:
                s2[k] = benign(s2[k])
        if isinstance(s2.get('props'), dict):
            s2['props'] = {k: benign(v) for k, v in s2['props'].items()}
        if isinstance(s2.get('hops'), list):
            s2['hops'] = [benign(v) for v in s2['hops']]
        if canon(s2) == canon(s):
            return
        self.drv.history = []
        self.drv.replay_shapes, self.drv.replay_pos = shapes, 0
        out2 = 'ok'
        try:
            self.invoke(s2)
        except (SkipStep, HarnessError):
            raise
        except Exception as e:
            out2 = 'exc:' + type(e).__name__
        finally:
            self.drv.replay_shapes = None
        second = self.drv.history
        self.drv.history = first
        self.stats.inc('probe.data_independence_pairs')

        def skel(q):
            outside, lits, p = scan(q)
            return re.sub(r'\s+', ' ', outside) if not p else None
        a = [skel(q) for q, _ in first]
        b = [skel(q) for q, _ in second]
        call = s['call']
        if outcome != out2:
            self.flag('stmt_value_not_in_text', {'call': call, 'symptom': 'outcome_depends_on_value'},
                      '%s ends with %s for the caller\'s values and with %s for harmless ones (same identifiers, same '
                      'driver answers): %s' % (call, outcome, out2, canon({k: s.get(k) for k in self.VALUE_FIELDS + ('props',)
                                                                          if k in s})[:400]))
        elif None not in a and a != b:
            i = next((i for i in range(min(len(a), len(b))) if a[i] != b[i]), min(len(a), len(b)))
            self.flag('stmt_value_not_in_text', {'call': call, 'symptom': 'text_depends_on_value'},
                      '%s: statement %d differs outside its literals between the caller\'s values and harmless ones: '
                      '%r vs %r' % (call, i, (first[i][0] if i < len(first) else None),
                                    (second[i][0] if i < len(second) else None)))

    def props_arg(self, s):
        """the caller's property dictionary: a fresh copy goes in, and it must come out as it went in (what the caller
        stores the next time with the same dictionary is still what the caller wrote)"""
        c = dict(s['props'])
        self._given = (c, dict(s['props']))
        return c

    def check_props_arg(self, call):
        g = getattr(self, '_given', None)
        self._given = None
        if g and (canon(g[0]) != canon(g[1])):
            self.flag('stmt_value_not_in_text', {'call': call, 'symptom': 'argument_rewritten'},
                      '%s rewrote the property dictionary it was given (was %s, is %s): storing it again sends other '
                      'text to the driver' % (call, canon(g[1])[:200], canon(g[0])[:200]))

    def invoke(self, s):
        from fim.graph.slices.neo4j_asm import Neo4jASM
        from fim.graph.resources.neo4j_cbm import Neo4jCBMGraph
        call = s['call']
        g = self.graph(s['gid'])
        if call == 'add_node':
            g.add_node(node_id=s['node'], label=s['label'], props=self.props_arg(s))
        elif call == 'get_node_properties':
            g.get_node_properties(node_id=s['node'])
        elif call == 'update_node_property':
            g.update_node_property(node_id=s['node'], prop_name=s['pname'], prop_val=s['pval'])
        elif call == 'unset_node_property':
            g.unset_node_property(node_id=s['node'], prop_name=s['pname'] if s['pname'] not in ('Name', 'Type') else 'Site')
        elif call == 'delete_node':
            g.delete_node(node_id=s['node'])
        elif call == 'node_exists':
            g.node_exists(node_id=s['node'], label=s['label'])
        elif call == 'get_node_json_property_as_object':
            g.get_node_json_property_as_object(node_id=s['node'], prop_name=s['pname'])
        elif call == 'update_node_properties':
            g.update_node_properties(node_id=s['node'], props=self.props_arg(s))
        elif call == 'add_link':
            g.add_link(node_a=s['a'], rel=s['rel'], node_b=s['b'], props=self.props_arg(s) or None)
        elif call == 'get_link_properties':
            g.get_link_properties(node_a=s['a'], node_b=s['b'])
        elif call == 'update_link_property':
            g.update_link_property(node_a=s['a'], node_b=s['b'], kind=s['rel'], prop_name=s['pname'], prop_val=s['pval'])
        elif call == 'unset_link_property':
            g.unset_link_property(node_a=s['a'], node_b=s['b'], kind=s['rel'], prop_name=s['pname'])
        elif call == 'update_link_properties':
            g.update_link_properties(node_a=s['a'], node_b=s['b'], kind=s['rel'],
                                     props=self.props_arg(s) or {'Name': s['pval']})
        elif call == 'update_nodes_property':
            g.update_nodes_property(prop_name=s['pname'], prop_val=s['pval'])
        elif call == 'list_all_node_ids':
            g.list_all_node_ids()
        elif call == 'get_all_nodes_by_class':
            g.get_all_nodes_by_class(label=s['label'])
        elif call == 'get_all_nodes_by_class_and_type':
            g.get_all_nodes_by_class_and_type(label=s['label'], ntype=s['ntype'])
        elif call == 'get_stitch_nodes':
            g.get_stitch_nodes()
        elif call == 'check_node_unique':
            g.check_node_unique(label=s['label'], name=s['name'])
        elif call == 'get_first_neighbor':
            g.get_first_neighbor(node_id=s['node'], rel=s['rel'], node_label=s['label'])
        elif call == 'get_first_and_second_neighbor':
            g.get_first_and_second_neighbor(node_id=s['node'], rel1=s['rel'], node1_label=s['label'], rel2=s['rel'],
                                            node2_label=s['label2'])
        elif call == 'get_nodes_on_shortest_path':
            g.get_nodes_on_shortest_path(node_a=s['node'], node_z=s['z'], rel=s['rel'] if s['userel'] else None)
        elif call == 'get_nodes_on_path_with_hops':
            g.get_nodes_on_path_with_hops(node_a=s['node'], node_z=s['z'], hops=list(s['hops']))
        elif call == 'find_peer_connection_points':
            g.find_peer_connection_points(node_id=s['node'])
        elif call == 'get_parent':
            g.get_parent(node_id=s['node'], rel=s['rel'], parent=s['label'])
        elif call == 'merge_nodes':
            self.drv.force_shape = 'populated'
            g.merge_nodes(s['node'], self.graph(s['gid2']), dict(s['policy']) if s['policy'] else None)
        elif call == 'find_matching_nodes':
            self.drv.force_shape = 'populated'
            g.find_matching_nodes(other_graph=self.graph(s['gid2']))
        elif call == 'get_graph_diff':
            g.get_graph_diff(self.graph(s['gid2']), s['label'])
        elif call == 'get_graph_property_diff':
            g.get_graph_property_diff(self.graph(s['gid2']), s['label'])
        elif call in ('import_graph_from_string', 'import_graph_from_string_direct', 'import_graph_from_file_direct'):
            self.do_import(s)
        elif call == 'check_node_name':
            self.graph(s['gid'], Neo4jASM).check_node_name(node_id=s['node'], label=s['label'], name=s['name'])
        elif call == 'find_node_by_name':
            self.graph(s['gid'], Neo4jASM).find_node_by_name(node_name=s['name'], label=s['label'])
        elif call == 'get_matching_nodes_with_components':
            from fim.slivers.attached_components import AttachedComponentsInfo, ComponentSliver, ComponentType
            comps = None
            if s['ncomp']:
                comps = AttachedComponentsInfo()        # ncomp = -1: a container without devices
                for i in range(max(0, s['ncomp'])):
                    c = ComponentSliver()
                    c.set_name('comp%d' % i)
                    c.set_type(ComponentType.GPU)
                    c.set_model(s['model'])
                    comps.add_device(c)
            Neo4jCBMGraph(graph_id=s['gid'], importer=self.imp).get_matching_nodes_with_components(
                label=s['label'], props=self.props_arg(s), comps=comps)
        elif call == 'get_delegations':
            from fim.slivers.delegations import DelegationType
            Neo4jCBMGraph(graph_id=s['gid'], importer=self.imp).get_delegations(
                node_id=s['node'], adm_id=s['gid'], delegation_type=DelegationType.CAPACITY)
        elif call in ('get_intersite_links', 'get_sites', 'get_disconnected_sites', 'get_connected_sites',
                      'get_facility_ports'):
            getattr(Neo4jCBMGraph(graph_id=s['gid'], importer=self.imp), call)()
        elif call == 'delete_graph':
            g.delete_graph()
        elif call == 'graph_exists':
            g.graph_exists()
        elif call == 'serialize_graph':
            self.drv.force_shape = 'populated'
            g.serialize_graph()
        elif call == 'validate_graph':
            g.validate_graph()
        elif call == 'clone_graph':
            self.drv.force_shape = 'populated'
            self.drv.import_failures_left = 0
            g.clone_graph(new_graph_id=s['gid2'])
        elif call == 'importer_delete_graph':
            self.imp.delete_graph(graph_id=s['gid'])
        elif call == 'cast_graph':
            self.imp.cast_graph(graph_id=s['gid'])
        elif call == 'delete_all_graphs':
            self.imp.delete_all_graphs()
        elif call == 'add_network_node_sliver':
            from fim.slivers.network_node import NodeSliver, NodeType
            sl = NodeSliver()
            sl.node_id = s['node']
            sl.set_name(s['name'])
            sl.set_type(NodeType.Server)
            sl.set_site('RENC')
            sl.set_details(s['details'])
            self.drv.force_shape = 'empty'
            self.graph(s['gid'], Neo4jASM).add_network_node_sliver(sliver=sl)
        elif call == 'add_interface_sliver':
            from fim.slivers.interface_info import InterfaceSliver, InterfaceType
            sl = InterfaceSliver()
            sl.node_id = s['node']
            sl.set_name(s['name'])
            sl.set_type(InterfaceType.TrunkPort)
            sl.set_details(s['details'])
            self.graph(s['gid'], Neo4jASM).add_interface_sliver(parent_node_id='parent-' + s['node'], interface=sl)
        else:
            raise HarnessError('unknown call %s' % call)

    def graphml(self, s, gid=None):
        import networkx as nx
        G = nx.Graph()
        G.add_node('n0', NodeID=s['node'], Class='NetworkNode', Name=s['name'], Type='Server',
                   **({'GraphID': gid} if gid else {}))
        G.add_node('n1', NodeID=s['node'] + '-b', Class='Component', Name='c', Type='GPU', **({'GraphID': gid} if gid else {}))
        G.add_edge('n0', 'n1', Class='has')
        return '\n'.join(nx.generate_graphml(G))

    def do_import(self, s):
        call = s['call']
        f = s['failures']
        before = set(os.listdir(self.scratch))
        self.drv.import_failures_left = f
        self.drv.force_shape = 'populated'
        t0 = self.clock.now
        nsleeps = len(self.clock.sleeps)
        raised = None
        try:
            if call == 'import_graph_from_string':
                self.imp.import_graph_from_string(graph_string=self.graphml(s), graph_id=s['gid'])
            elif call == 'import_graph_from_string_direct':
                self.imp.import_graph_from_string_direct(graph_string=self.graphml(s, s['gid']))
            else:
                path = os.path.join(self.scratch, 'src-%d.graphml' % self.mc)
                with open(path, 'w') as fh:
                    fh.write(self.graphml(s, s['gid']))
                before.add(os.path.basename(path))
                self.imp.import_graph_from_file_direct(graph_file=path)
        except Exception as e:
            raised = e
        finally:
            self.drv.import_failures_left = 0
        attempts = sum(1 for q, _ in self.drv.history if 'apoc.import.graphml' in q)
        slept = self.clock.now - t0
        retrying = call != 'import_graph_from_file_direct'
        sig = {'call': call, 'failures': 'persistent' if f < 0 else ('many' if f >= 10 else 'some' if f else 'none')}
        if retrying:
            from fim.graph.neo4j_property_graph import APOC_RETRY_COUNT
            if 0 <= f < APOC_RETRY_COUNT:
                if raised is not None:
                    self.flag('retry_bounded', dict(sig, symptom='raised'),
                              '%s with %d transient failures raised %r instead of succeeding' % (call, f, raised))
                elif attempts != f + 1 or abs(slept - f) > 1e-9:
                    self.flag('retry_bounded', dict(sig, symptom='attempts'),
                              '%s with %d transient failures: %d attempts, %.1f simulated seconds (expected %d and %d)' %
                              (call, f, attempts, slept, f + 1, f))
            else:
                if raised is None:
                    self.flag('retry_bounded', dict(sig, symptom='no_error'),
                              '%s under persistent failure returned normally' % call)
                elif attempts != APOC_RETRY_COUNT:
                    self.flag('retry_bounded', dict(sig, symptom='attempts'),
                              '%s under persistent failure made %d attempts, expected exactly %d' %
                              (call, attempts, APOC_RETRY_COUNT))
            left = set(os.listdir(self.scratch)) - before
            if left:
                self.flag('staging_file_removed', sig, '%s left staging files behind: %s' % (call, sorted(left)))
        self.stats.inc('sim_seconds', int(slept))

    def finish(self):
        pass
