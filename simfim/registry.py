"""Property -> world, run counts, level, evidence wording."""
from .driver import register
from .pgmodel import PINNED_RULES

W1_ASSUME = [
    "property values are str or int (one name may carry both types, on nodes and on edges)",
    "carriage return is excluded from generated text (XML line-end normalisation is outside the library)",
    "failing imports (text without NodeID) are issued only for graph ids not currently stored",
    "find_matching_nodes / clone_graph / merge_nodes are issued only for graphs that currently have nodes",
    "merge_nodes is issued only when the two nodes have no common neighbour and 'overwrite'/'combine' only for properties the other node has",
]

register('C04', world='w1:W1World', quick=18000, thorough=300000, level='exploration',
         rule="one evaluation = one seeded W1 run: 2-4 clients x 1-2+ graph ids, 2-40 interleaved store operations "
              "applied in lock step to the shared store, the one-graph-per-store store and PGModel; after every step "
              "every graph the operation did not address is compared with its snapshot before the step and read through "
              "the API (ids, existence, properties). Operations include opening another importer (with/without logger), "
              "delete-all, direct re-import of a text saved earlier; 40% of runs keep one graph object per id across calls. A run is "
              "non-trivial if it executed at least one successful mutating operation; distinct = distinct event-log digest.",
         assumptions=W1_ASSUME, pinned_rules=PINNED_RULES)
register('C05', world='w1:W1World', quick=18000, thorough=300000, level='exploration',
         rule="one evaluation = one seeded W1 run (see C04); every call's outcome class, returned value and the whole "
              "store state are compared three ways (shared store, disjoint store, PGModel) after every step; dictionaries "
              "handed to the library must come back unchanged (argument_untouched). Non-trivial: "
              ">=1 successful mutating operation; distinct = distinct event-log digest.",
         assumptions=W1_ASSUME, pinned_rules=PINNED_RULES)
register('C06', world='w1:W1World', quick=18000, thorough=300000, level='exploration',
         rule="one evaluation = one seeded W1 run with a query-heavy mix; each neighbour/path query is answered by both "
              "backends and compared with an oracle computed from PGModel's edge list (set comprehension, BFS, brute-force "
              "simple paths); half of the hop queries carry an explicit depth limit; the class alphabet contains names that "
              "contain one another (Link / CompositeLink). Non-trivial: >=1 successful mutating operation; distinct = distinct event-log digest.",
         assumptions=W1_ASSUME + ["'loop-free' for path-with-hops is the library's own notion: the sub-graph induced by the path's nodes has no cycle"])
register('C01', world='w1:W1World', level='exploration',
         parts=[{'world': 'w1:W1World', 'quick': 12000, 'thorough': 200000},
                {'world': 'w2:W2World', 'quick': 900, 'thorough': 15000}],
         rule="one evaluation = one seeded W1 run with a round-trip-heavy mix: graphs built by the history are serialized "
              "(GraphML / JSON node-link) from both stores, the text is parsed independently (lxml/json) and compared with "
              "PGModel, re-imported through one of the four entry points (same or other store, id kept or reassigned), "
              "compared again, re-serialized and validated; a text saved by an earlier step is also loaded again after the "
              "graph was edited or deleted (must give exactly the saved content). 40% of runs arm the file seam (ENOSPC, EIO, short write, "
              "missing file) with the relaxed oracle. A second part runs W2 (topology world) with a mix heavy in "
              "Topology.serialize -> load (string/file, GraphML/JSON, id kept/new) on topology-built slice and substrate "
              "models, incl. validate_graph() after import. Non-trivial: >=1 successful mutating op (and >=1 fired fault in fault runs).",
         assumptions=W1_ASSUME)

register('C20', level='exploration', world='w1t:W1TWorld',
         parts=[{'world': 'w1:W1World', 'quick': 8000, 'thorough': 150000},
                {'world': 'w1t:W1TWorld', 'quick': 30000, 'thorough': 1500000}],
         rule="two parts. (A) seeded W1 runs (see C04) with an observing lock in both stores: after every store operation of "
              "every history, incl. naturally failing ones, acquires = releases, no release while unlocked, not held on "
              "exit; plus 'crash_enum' steps that enumerate EVERY line event of one store operation (add_graph, "
              "add_graph_direct, del_graph, extract_graph, get_graph, del_all_graphs, add_blank_node_to_graph; fresh / "
              "existing / failing input) and re-run it with MemoryError raised there. (B) W1-T: 2-3 real threads x 2-4 "
              "store operations under a seeded baton scheduler (random switching or PCT priorities) pre-empting at every "
              "source line of the store modules and every lock operation; 30% of runs also raise MemoryError at a chosen "
              "line event of a chosen thread; 30% have a CONTESTED graph every thread imports into / adds to / deletes, judged "
              "against all serial orders of the completed operations (sequential consistency); 12% are pure-contest runs "
              "that also delete everything and open importers inside threads; 25% also pre-empt at the entry of every "
              "function store code calls (finer than the property's stated granularity: open finding "
              "F-C20-unlocked-iteration is only reachable there); at every pre-emption point the store singleton and "
              "its lock must still be the instrumented objects. Non-trivial: part A >=1 successful mutating op; part B >=1 context switch. "
              "Distinct = distinct event-log digest (part B's log contains the complete schedule).",
         assumptions=W1_ASSUME + [
             "pre-emption granularity is a source line of networkx_property_graph.py / _disjoint.py / networkx_mixin.py; "
             "code those lines call (networkx, networkx_query) runs atomically",
             "exceptions are not injected at the lock calls themselves nor at try:/finally:/return lines (their line event "
             "lies outside the protected range by construction of the bytecode)",
             "in threaded runs each thread owns its graph ids; all threads add nodes with distinct ids to one common graph; "
             "on the disjoint store a graph is imported only under an id that currently has no nodes (known finding F-C05)"],
         stubs=['uuid.uuid4 (seeded)', 'store lock (observing SimLock / scheduler-aware ThreadLock)',
                'thread scheduler: which thread runs next is decided by the seeded scheduler (threads themselves are real)'])

W2_ASSUME = [
    "links created by connect_interface/peer are not removed by hand through remove_link (outside documented use)",
    "interfaces are never added to a service with type ServicePort by hand",
    "cardinality rules 11/12 of the published rules are judged only right after a successful validate()",
]
W2_RULE = ("one evaluation = one seeded W2 run: one user session drives an ExperimentTopology (80%%) or SubstrateTopology "
           "on the shared or the one-graph-per-store backend (optionally with a bystander graph in the same store) through "
           "3-32 calls drawn from the documented building/removing/property calls with a per-run random mix (swarm), valid and "
           "deliberately invalid arguments, library-generated and caller-supplied ids, retained or fresh objects (services, "
           "ports, node-level services), any settable property given at creation and read back; in 35%% of runs a second "
           "session builds another topology in the same store with interleaved steps, shared names and ids; in 20%% the "
           "topology class is a trivial subclass. After every "
           "call the model graph is read white-box from the store. %s Distinct = distinct event-log digest.")
register('C07', world='w2:W2World', quick=1500, thorough=40000, level='exploration',
         rule=W2_RULE % "C07 oracles after every call: the published rules (vocabularies pinned in the checker), one owner per "
                        "component/interface/service, links touch only interfaces, every service port has one peer, names unique "
                        "per scope, every read-only view lists exactly the model's elements (sampled every 1-8 calls, after every "
                        "removal and at run end) and refuses mutation. Non-trivial: >=1 call changed the model.",
         assumptions=W2_ASSUME)
register('C08', world='w2:W2World', quick=1800, thorough=40000, level='exploration',
         rule=W2_RULE % "C08 oracle on every removal/disconnect/unpeer/prune of an existing element: the post-state equals the "
                        "pre-state minus an independently computed owned closure and peering artefacts (service-side port + link; "
                        "a link goes only when left with < 2 ends), everything else bit-identical; handles the call went through "
                        "(and that agreed with the model before) list what a fresh lookup lists (after building calls the same is judged as "
                        "a C07 view). Non-trivial: >=1 call changed the model.",
         assumptions=W2_ASSUME)
register('C09', world='w2:W2World', quick=1400, thorough=40000, level='fault_enumeration',
         rule=W2_RULE % "C09: every call that raises must leave the abstract state identical. Besides naturally failing calls of "
                        "the workload (the first 40%% of a run build a model without them), 'failing' steps draw from a catalogue of ~60 failing-call templates (duplicate name/id per "
                        "element class, rejected property value at each position among good ones, the i-th of n interfaces bad for "
                        "every i and n<=3, unknown model, connected interface, sub-interface rules, absent targets, substrate id "
                        "collisions; a rejected argument at every construction step of add_switch / add_facility incl. derived ids taken, "
                        "created by a set-up call first; arguments that are no interface at all or belong to another model; calls "
                        "through the object of a removed element; self-peering; interfaces given as tuple/generator); enumerations of the "
                        "WHOLE applicable catalogue are started preferably in states with components and services. "
                        "Non-trivial: >=1 call raised.",
         assumptions=W2_ASSUME + ["fault enumeration is complete per sampled state over the template x position catalogue; the states are sampled"])
register('C02', world='w2:W2World', quick=1800, thorough=40000, level='exploration',
         rule=W2_RULE % "C02 oracles: set_property/set_properties/property-style assignment over every name of list_properties() "
                        "that has a value generator (values per name: capacities, labels, hints, reservation/structural info, "
                        "gateway, ERO/path info, flags, tags, JSON data, addresses, enums, image ref/type pair) reads back equal "
                        "by canonical JSON; unset reads as absent and the graph property is gone; get_sliver() of any element "
                        "equals the abstract sub-tree (every graph property, every child, recursively) and survives "
                        "sliver->dict->JSON->sliver. Non-trivial: >=1 call changed the model.",
         assumptions=W2_ASSUME + ["no schedule or fault enters this property; the simulation contributes state diversity only",
                                  "zero/false/empty field values of the value classes belong to C03 and are not generated",
                                  "names not exercised through set_property and why: see NOT_GENERATED in simfim/w2_props.py"])

register('C10', world='w2:W2World', quick=1800, thorough=40000, level='exploration',
         rule=W2_RULE % "C10 oracle: validate() is issued at arbitrary points of experiment-topology histories whose mix is biased to "
                        "service creation (all slice service types x 0-4 interfaces x site placements x interface kinds) and to "
                        "setting the constrained properties; accept/reject is compared two-sidedly with a reference evaluated over "
                        "constraint tables PINNED in the checker; a successful validation must record the inferred site; a "
                        "validation may change nothing else; L2PTP must never hold a shared port after any connect. "
                        "Non-trivial: >=1 call changed the model.",
         assumptions=W2_ASSUME + ["the property is a function of the topology with one side effect; the simulation interleaves it with edits",
                                  "num_instances is NO_LIMIT for every type in the pinned table, so the per-site instance rule is vacuous"])
register('C11', world='w2:W2World', quick=1800, thorough=40000, level='exploration',
         rule=W2_RULE % "C11 oracles: attributes collected from the topology object, and from its serialized model when the slice "
                        "validates, equal an order-free tally of the abstract state (sets for de-duplicated attributes, multisets "
                        "for per-resource ones); the PDP request lists exactly those attributes with the right category/type; the "
                        "accounting summary, from the topology object and from the serialized model (which must still be there afterwards), equals a direct tally. Order is varied by history (creation order, delete/re-add, "
                        "re-import by the ASM path which renumbers storage) and by the hash seed of the batch. "
                        "Non-trivial: >=1 call changed the model.",
         assumptions=W2_ASSUME + ["'mirrored port inside the slice' is the library's definition: the port name is a local_name label of the first peer of a connected interface of a slice node",
                                  "'sites used' are the sites of non-facility nodes and the sites recorded on services (what the collector documents)"])
register('C17', world='w2:W2World', quick=1800, thorough=40000, level='exploration',
         rule=W2_RULE % "C17 oracles: a checkpoint (clone of the topology graph) is taken early; later, slivers of nodes / services / "
                        "dedicated ports present in both versions are diffed in both directions and compared with a reference diff "
                        "computed by subtracting the two abstract states (added/removed by name, LABELS/CAPACITIES/USER_DATA/"
                        "SUB_INTERFACES flags), identical versions must give None, added(old->new) = removed(new->old). Checkpoints roll; "
                        "12%% of steps start a sequence fresh checkpoint -> 1-3 tracked edits on one element (or two sub-interfaces "
                        "edited differently, or a component re-created under its name) -> comparison of exactly the enclosing "
                        "element; 'diff_copy_edit' deep-copies a node sliver, edits the COPY through the sliver classes and "
                        "demands exactly those edits in both directions. "
                        "Non-trivial: >=1 call changed the model.",
         assumptions=W2_ASSUME + ["elements are matched by name (as the library documents); SUB_INTERFACES is judged for SmartNIC components and dedicated ports only (the library's scope)"])

W3_ASSUME = [
    "aggregate models are built with the raw property-graph interface from a seeded generator (sites with workers, components, switch, ports, facility, uplink; a network aggregate); aggregates share only stitching elements (link + far port), identified by node id",
    "merge_adm/unmerge_adm/_update_node_delegations are the functions of fim.graph.resources.neo4j_cbm bound unchanged onto a NetworkXPropertyGraph subclass; APOC semantics of a real Neo4j are not exercised",
    "a broker recognises an already merged advertisement by its id (duplicate delivery is dropped by the harness, as the control framework does) and unmerges an aggregate's previous advertisement before merging a newer one",
]
W3_RULE = ("one evaluation = one seeded W3 run: 1-3 site aggregates + one network aggregate, each an aggregate model built "
           "from a seeded generator and annotated with 1-3 delegation ids (single-resource, pool definition, pool reference; "
           "nodes with label-only, capacity-only, both or no delegations; stitching elements shared by node id); 4-28 "
           "scheduler events: partition, re-key, send (partition + serialize), deliver (import, snapshot, merge; optionally an "
           "exception at the k-th backend call of the merge followed by rollback and re-delivery), duplicate, drop, re-send, "
           "aggregate offline (unmerge) / back (new advertisement, new id), explicit snapshot / rollback, an aggregate gaining "
           "a delegated resource, another importer opened on the store; in half the runs the aggregate-model object is kept "
           "between partitionings, in 20%% generate_adms gets graph ids for only one delegation id, in 15%% one aggregate "
           "names its models after the delegation ids; every partition is re-keyed twice; at the end every "
           "message still in flight is delivered fault-free within 2 x #messages steps. %s Distinct = distinct event-log digest.")
register('C13', world='w3:W3World', quick=1500, thorough=40000, level='exploration',
         rule=W3_RULE % "C13 oracles on every partition produced: one model per delegation id; every node delegated to the id present "
                        "with exactly its own entries; no entry of another id anywhere; sub-model (ids, all other properties, every "
                        "original edge between kept nodes and no other edge); each kept interface keeps link, peers, owning service "
                        "and its owner; all stitching elements present; the aggregate model untouched; re-keying changes only the "
                        "key. Non-trivial: >=1 partition checked.",
         assumptions=W3_ASSUME + ["the property is a function of the annotated aggregate model; the simulation contributes the generated models and the place of partitioning inside the federation workflow"])
register('C14', world='w3:W3World', quick=1500, thorough=40000, level='exploration',
         rule=W3_RULE % "C14 oracles after every delivered event: combined model = order-free union of the advertisements currently "
                        "merged (elements once, adm_graph_ids = contributing set, delegations keyed by contributing model id, union "
                        "of connections, no property no source has); sources untouched; unmerge = expectation without it; rollback "
                        "= recorded snapshot state; after a failure inside merge, rollback restores the pre-merge model; bounded "
                        "liveness at quiescence. 75% of runs use agreeing shared elements (unconditional), 25% disagreeing ones "
                        "(recorded finding). Non-trivial: >=1 merge/unmerge/rollback/partition done.",
         assumptions=W3_ASSUME)

register('C19', world='w4:W4World', quick=20000, thorough=300000, level='exploration',
         rule="one evaluation = one seeded W4 run: the real Neo4j importer / property graph / ASM / CBM classes are driven through "
              "3-30 public operations (node/link CRUD, bulk updates, queries, merge, diff, import, ASM and CBM queries, sliver "
              "adds, lifecycle) with adversarial arguments; every stored value carries a unique marker token. A fake driver "
              "records every (statement, parameters) pair and answers with PRNG-scripted results (populated / empty / None); "
              "imports get 0,1,2,5,9 transient or persistent driver failures and retry on a simulated clock. Oracle over the "
              "recorded history: quotes/brackets balanced, no template residue, every used variable bound, every $parameter "
              "supplied, a marker may appear in the text only inside one literal whose unescaped content is the value; every call "
              "is executed a second time with each caller-supplied value replaced by a harmless one (driver answering as before): "
              "same outcome, statements equal outside their literals; property dictionaries come back unchanged; values may "
              "be lists or numbers; retry "
              "count, simulated seconds and staging-file removal. Non-trivial: >=1 operation issued; distinct = distinct "
              "event-log digest.",
         assumptions=["the Cypher checker is structural (it accepts constructs it does not know): it can miss a malformed statement that happens to balance",
                      "what a real server would answer is stubbed; only statement form and the client-side retry logic are judged",
                      "graph ids count as stored values (they are written to the GraphID property)"],
         real=['fim (all of it, from /repo working tree)', 'networkx', 'lxml', 'real file system under a per-run scratch directory (import staging files)'],
         stubs=['neo4j.GraphDatabase / driver / session / result (FakeGraphDatabase)', 'time.sleep in neo4j_property_graph (simulated clock)', 'uuid.uuid4 (seeded)'])
