"""Property -> world, run counts, level, evidence wording."""
from .driver import register
from .pgmodel import PINNED_RULES

W1_ASSUME = [
    "property values are str or int; each property name carries one value type within a graph (GraphML types a key once)",
    "carriage return is excluded from generated text (XML line-end normalisation is outside the library)",
    "failing imports (text without NodeID) are issued only for graph ids not currently stored",
    "find_matching_nodes / clone_graph / merge_nodes are issued only for graphs that currently have nodes",
    "merge_nodes is issued only when the two nodes have no common neighbour and 'overwrite'/'combine' only for properties the other node has",
]

register('C04', world='w1:W1World', quick=6000, thorough=300000, level='exploration',
         rule="one evaluation = one seeded W1 run: 2-4 clients x 1-2+ graph ids, 2-40 interleaved store operations "
              "applied in lock step to the shared store, the one-graph-per-store store and PGModel; after every step "
              "every graph the operation did not address is compared with its snapshot before the step. A run is "
              "non-trivial if it executed at least one successful mutating operation; distinct = distinct event-log digest.",
         assumptions=W1_ASSUME, pinned_rules=PINNED_RULES)
register('C05', world='w1:W1World', quick=6000, thorough=300000, level='exploration',
         rule="one evaluation = one seeded W1 run (see C04); every call's outcome class, returned value and the whole "
              "store state are compared three ways (shared store, disjoint store, PGModel) after every step. Non-trivial: "
              ">=1 successful mutating operation; distinct = distinct event-log digest.",
         assumptions=W1_ASSUME, pinned_rules=PINNED_RULES)
register('C06', world='w1:W1World', quick=6000, thorough=300000, level='exploration',
         rule="one evaluation = one seeded W1 run with a query-heavy mix; each neighbour/path query is answered by both "
              "backends and compared with an oracle computed from PGModel's edge list (set comprehension, BFS, brute-force "
              "simple paths). Non-trivial: >=1 successful mutating operation; distinct = distinct event-log digest.",
         assumptions=W1_ASSUME + ["'loop-free' for path-with-hops is the library's own notion: the sub-graph induced by the path's nodes has no cycle"])
register('C01', world='w1:W1World', quick=5000, thorough=200000, level='exploration',
         rule="one evaluation = one seeded W1 run with a round-trip-heavy mix: graphs built by the history are serialized "
              "(GraphML / JSON node-link) from both stores, the text is parsed independently (lxml/json) and compared with "
              "PGModel, re-imported through one of the four entry points (same or other store, id kept or reassigned), "
              "compared again, re-serialized and validated. 40% of runs arm the file seam (ENOSPC, EIO, short write, "
              "missing file) with the relaxed oracle. Non-trivial: >=1 successful mutating op (and >=1 fired fault in fault runs).",
         assumptions=W1_ASSUME)
