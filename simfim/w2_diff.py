"""
C17 as operations of W2: two versions of one element are two checkpoints of one
edit history; the reference diff is a subtraction of two abstract states.
Elements are matched by name, as the library's docstrings say.
"""
import json

from .kernel import SkipStep, canon
from .struct import Struct, graph_state, jprop
from .w2_ops import op, top_services

FLAG_PROPS = (('LABELS', 'Labels'), ('CAPACITIES', 'Capacities'), ('USER_DATA', 'UserData'))


def pflags(pa, pb):
    out = set()
    for flag, prop in FLAG_PROPS:
        if canon(jprop(pa, prop)) != canon(jprop(pb, prop)):
            out.add(flag)
    return out


def by_name(st, ids):
    return {st.name(i): i for i in ids}


def iface_differs(sa, ia, sb, ib):
    """InterfaceSliver.diff is not None"""
    if pflags(sa.n[ia], sb.n[ib]):
        return True
    ka, kb = by_name(sa, sa.child_cps(ia)), by_name(sb, sb.child_cps(ib))
    if set(ka) != set(kb):
        return True
    return any(pflags(sa.n[ka[k]], sb.n[kb[k]]) for k in ka)


def iface_flags(sa, ia, sb, ib):
    f = pflags(sa.n[ia], sb.n[ib])
    if sa.typ(ia) == 'DedicatedPort' and iface_differs(sa, ia, sb, ib):
        f.add('SUB_INTERFACES')
    return f


def ns_differs(sa, a, sb, b):
    """NetworkServiceSliver.diff is not None"""
    if pflags(sa.n[a], sb.n[b]):
        return True
    ia, ib = by_name(sa, sa.cps_of_service(a)), by_name(sb, sb.cps_of_service(b))
    if set(ia) != set(ib):
        return True
    return any(iface_flags(sa, ia[k], sb, ib[k]) for k in ia)


def expected_node_diff(sa, a, sb, b):
    e = {'added': {'components': set(), 'services': set(), 'interfaces': set()},
         'removed': {'components': set(), 'services': set(), 'interfaces': set()},
         'modified': {'nodes': {}, 'components': {}, 'services': {}, 'interfaces': {}}}
    f = pflags(sa.n[a], sb.n[b])
    if f:
        e['modified']['nodes'][sa.name(a)] = f
    ca, cb = by_name(sa, sa.components_of(a)), by_name(sb, sb.components_of(b))
    e['added']['components'] = set(cb) - set(ca)
    e['removed']['components'] = set(ca) - set(cb)
    unknown = set()
    for k in set(ca) & set(cb):
        f = pflags(sa.n[ca[k]], sb.n[cb[k]])
        if sa.typ(ca[k]) == 'SmartNIC':
            na, nb = sa.services_of(ca[k]), sb.services_of(cb[k])
            if len(na) == 1 and len(nb) == 1:
                if ns_differs(sa, na[0], sb, nb[0]):
                    f.add('SUB_INTERFACES')
            else:
                unknown.add(k)
        if f:
            e['modified']['components'][k] = f
    na, nb = by_name(sa, sa.services_of(a)), by_name(sb, sb.services_of(b))
    e['added']['services'] = set(nb) - set(na)
    e['removed']['services'] = set(na) - set(nb)
    for k in set(na) & set(nb):
        f = pflags(sa.n[na[k]], sb.n[nb[k]])
        if f:
            e['modified']['services'][k] = f
    return e, unknown


def expected_ns_diff(sa, a, sb, b):
    e = {'added': {'components': set(), 'services': set(), 'interfaces': set()},
         'removed': {'components': set(), 'services': set(), 'interfaces': set()},
         'modified': {'nodes': {}, 'components': {}, 'services': {}, 'interfaces': {}}}
    f = pflags(sa.n[a], sb.n[b])
    if f:
        e['modified']['services'][sa.name(a)] = f
    ia, ib = by_name(sa, sa.cps_of_service(a)), by_name(sb, sb.cps_of_service(b))
    e['added']['interfaces'] = set(ib) - set(ia)
    e['removed']['interfaces'] = set(ia) - set(ib)
    for k in set(ia) & set(ib):
        f = iface_flags(sa, ia[k], sb, ib[k])
        if f:
            e['modified']['interfaces'][k] = f
    return e


def expected_iface_diff(sa, a, sb, b):
    e = {'added': {'components': set(), 'services': set(), 'interfaces': set()},
         'removed': {'components': set(), 'services': set(), 'interfaces': set()},
         'modified': {'nodes': {}, 'components': {}, 'services': {}, 'interfaces': {}}}
    f = pflags(sa.n[a], sb.n[b])
    if f:
        e['modified']['services'][sa.name(a)] = f     # the library files an interface's own change under 'services'
    ka, kb = by_name(sa, sa.child_cps(a)), by_name(sb, sb.child_cps(b))
    e['added']['interfaces'] = set(kb) - set(ka)
    e['removed']['interfaces'] = set(ka) - set(kb)
    for k in set(ka) & set(kb):
        f = pflags(sa.n[ka[k]], sb.n[kb[k]])
        if f:
            e['modified']['interfaces'][k] = f
    return e


def is_empty(e):
    return not any(e['added'].values()) and not any(e['removed'].values()) and not any(e['modified'].values())


def normalise_diff(d):
    """TopologyDiff of slivers -> the comparable structure"""
    if d is None:
        return None
    out = {'added': {}, 'removed': {}, 'modified': {}}
    for part in ('added', 'removed'):
        t = getattr(d, part)
        for k in ('components', 'services', 'interfaces'):
            out[part][k] = set(x.resource_name for x in getattr(t, k))
    for k in ('nodes', 'components', 'services', 'interfaces'):
        m = {}
        for el, flag in getattr(d.modified, k):
            fl = set(f.name for f in type(flag) if f.value and (flag & f) and f.name != 'NONE')
            m[el.resource_name] = fl
        out['modified'][k] = m
    return out


def show(e):
    if e is None:
        return 'None'
    return canon({p: {k: (sorted(v) if isinstance(v, set) else {n: sorted(f) for n, f in v.items()})
                      for k, v in e[p].items() if v} for p in e})


def swap(e):
    """what old->new adds, new->old removes"""
    return {'added': e['removed'], 'removed': e['added'], 'modified': e['modified']}


@op('checkpoint', 'read')
def g_checkpoint(w, rng, st):
    if not st.of_class('NetworkNode'):
        return None
    if len(w.checkpoints) >= 2:
        # roll: the oldest checkpoint is dropped, so later comparisons are against a recent version (few edits apart)
        return {'replace': 0}
    return {}


@op('checkpoint', 'read')
def x_checkpoint(w, s, st, info):
    if st.dups:
        raise SkipStep()
    if s.get('replace') is not None:
        if s['replace'] >= len(w.checkpoints):
            raise SkipStep()
        old_id, _ = w.checkpoints.pop(s['replace'])
        w.imp.delete_graph(graph_id=old_id)
    w.ckpt_ctr = getattr(w, 'ckpt_ctr', 0) + 1
    new_id = 'ckpt-%d' % w.ckpt_ctr
    w.topo.graph_model.clone_graph(new_graph_id=new_id)
    snap = graph_state(w.imp, new_id)
    if canon(snap) != canon(st.state):
        w.flag('C04', 'clone_equal', {'world': 'W2'}, 'a clone of the topology graph differs from its source')
    w.checkpoints.append((new_id, snap))
    w.by_pre = None


def old_topology(w, gid):
    from fim.user.topology import ExperimentTopology, SubstrateTopology
    from fim.graph.slices.networkx_asm import NetworkxASM
    t = ExperimentTopology(importer=w.imp)
    t.cast(asm_graph=NetworkxASM(graph_id=gid, importer=w.imp))
    return t


@op('diff_slivers', 'read')
def g_diff_slivers(w, rng, st):
    if not w.checkpoints:
        return None
    newest = len(w.checkpoints) - 1
    return {'ckpt': newest if rng.random() < 0.6 else rng.randrange(len(w.checkpoints)),
            'what': rng.choice(['node', 'node', 'service', 'interface']), 'pick': rng.randrange(1000)}


@op('diff_slivers', 'read')
def x_diff_slivers(w, s, st, info):
    if s['ckpt'] >= len(w.checkpoints) or st.dups:
        raise SkipStep()
    gid, snap = w.checkpoints[s['ckpt']]
    now = graph_state(w.imp, gid)
    if canon(now) != canon(snap):
        w.flag('C04', 'frame_other_graphs', {'world': 'W2', 'op': 'checkpoint'},
               'the checkpoint graph %s changed while the topology was edited' % gid)
        return
    so = Struct(snap)
    told = old_topology(w, gid)
    tnew = w.topo

    def unique(stx, ids):
        names = [stx.name(i) for i in ids]
        return len(set(names)) == len(names)
    what = s['what']
    if what == 'node':
        both = [n for n in so.of_class('NetworkNode') if n in st.n and st.cls(n) == 'NetworkNode' and
                so.typ(n) != 'Facility' and so.name(n) == st.name(n)]
        if not both or not unique(so, so.of_class('NetworkNode')) or not unique(st, st.of_class('NetworkNode')):
            raise SkipStep()
        n = sorted(both)[s['pick'] % len(both)]
        if s.get('node_name'):
            named = [x for x in both if st.name(x) == s['node_name']]
            if not named:
                raise SkipStep()
            n = named[0]
        for stx in (so, st):
            if not unique(stx, stx.components_of(n)) or not unique(stx, stx.services_of(n)):
                raise SkipStep()
        a = told.nodes[so.name(n)].get_sliver()
        b = tnew.nodes[st.name(n)].get_sliver()
        exp, unknown = expected_node_diff(so, n, st, n)
        rexp, unknown2 = expected_node_diff(st, n, so, n)
        if unknown or unknown2:
            # a SmartNIC on one side matched by name with a component that has no (or several) network services
            # on the other: not "present in both" in any useful sense, and not exercised
            w.stats.inc('probe.diff.skipped_same_name_other_component')
            raise SkipStep()
        label = 'node %s' % so.name(n)
    elif what == 'service':
        both = [x for x in top_services(so) if x in st.n and so.name(x) == st.name(x)]
        if not both or not unique(so, top_services(so)) or not unique(st, top_services(st)) or \
                not unique(so, so.of_class('NetworkService')) or not unique(st, st.of_class('NetworkService')):
            raise SkipStep()
        x = sorted(both)[s['pick'] % len(both)]
        if s.get('svc_name'):
            named = [y for y in both if st.name(y) == s['svc_name']]
            if not named:
                raise SkipStep()
            x = named[0]
        if not unique(so, so.cps_of_service(x)) or not unique(st, st.cps_of_service(x)):
            raise SkipStep()
        a = told.network_services[so.name(x)].get_sliver()
        b = tnew.network_services[st.name(x)].get_sliver()
        exp, rexp = expected_ns_diff(so, x, st, x), expected_ns_diff(st, x, so, x)
        label = 'service %s' % so.name(x)
    else:
        both = [c for c in so.of_class('ConnectionPoint') if so.typ(c) == 'DedicatedPort' and c in st.n]
        if not both:
            raise SkipStep()
        c = sorted(both)[s['pick'] % len(both)]
        if s.get('cp'):
            if s['cp'] not in both:
                raise SkipStep()
            c = s['cp']
        if not unique(so, so.child_cps(c)) or not unique(st, st.child_cps(c)):
            raise SkipStep()
        a = told.graph_model.build_deep_interface_sliver(node_id=c)
        b = tnew.graph_model.build_deep_interface_sliver(node_id=c)
        exp, rexp = expected_iface_diff(so, c, st, c), expected_iface_diff(st, c, so, c)
        label = 'interface %s' % so.name(c)
    try:
        d_ab = normalise_diff(a.diff(b))
        d_ba = normalise_diff(b.diff(a))
        d_aa = a.diff(a)
    except Exception as e:
        w.flag('C17', 'diff_exact', {'what': what, 'symptom': 'raised', 'exc': type(e).__name__},
               'diff of two versions of %s raised %r' % (label, e))
        return
    if d_aa is not None:
        w.flag('C17', 'diff_none_on_equal', {'what': what}, 'diff of %s with itself reports %s' %
               (label, show(normalise_diff(d_aa))))
    for got, want, direction in ((d_ab, exp, 'old->new'), (d_ba, rexp, 'new->old')):
        if is_empty(want):
            if got is not None:
                w.flag('C17', 'diff_none_on_equal' if canon(snap) == canon(st.state) else 'diff_exact',
                       {'what': what, 'symptom': 'difference_where_none'},
                       '%s %s: nothing differs, the library reports %s' % (label, direction, show(got)))
            continue
        if got is None:
            w.flag('C17', 'diff_exact', {'what': what, 'symptom': 'none_where_difference'},
                   '%s %s: expected %s, the library reports no difference' % (label, direction, show(want)))
            continue
        for part in ('added', 'removed', 'modified'):
            for k in want[part]:
                if canon(sorted(got[part].get(k, ()))) != canon(sorted(want[part][k])) or \
                        (part == 'modified' and canon({n: sorted(f) for n, f in got[part].get(k, {}).items()}) !=
                         canon({n: sorted(f) for n, f in want[part][k].items()})):
                    w.flag('C17', 'diff_exact', {'what': what, 'part': part, 'kind': k},
                           '%s %s: %s %s expected %s, library reports %s' %
                           (label, direction, part, k,
                            sorted(want[part][k]) if part != 'modified' else {n: sorted(f) for n, f in want[part][k].items()},
                            sorted(got[part].get(k, ())) if part != 'modified' else
                            {n: sorted(f) for n, f in got[part].get(k, {}).items()}))
                    return
    if d_ab is not None and d_ba is not None:
        for k in ('components', 'services', 'interfaces'):
            if d_ab['added'][k] != d_ba['removed'][k] or d_ab['removed'][k] != d_ba['added'][k]:
                w.flag('C17', 'diff_antisymmetric', {'what': what, 'kind': k},
                       '%s: added old->new %s / removed new->old %s; removed old->new %s / added new->old %s' %
                       (label, sorted(d_ab['added'][k]), sorted(d_ba['removed'][k]), sorted(d_ab['removed'][k]),
                        sorted(d_ba['added'][k])))
    w.stats.inc('probe.diff.%s.%s' % (what, 'different' if not is_empty(exp) else 'same'))


def single_edit_sequence(w, rng, st):
    """C17: a fresh checkpoint, ONE tracked edit somewhere below a node, then the comparison of exactly that node -
    'what changed' must be reported also when it is the only thing that changed"""
    from .w2_props import element_targets, gen_value
    from .w2_ops import generate
    cands = []
    for kind, ref, xid in element_targets(st):
        if kind == 'link':
            continue
        node = None
        if kind in ('node', 'component', 'interface'):
            node = ref.get('node')
        elif kind == 'service' and ref.get('owned'):
            o = st.owner_of_service(xid)
            while o and st.cls(o[0]) != 'NetworkNode':
                o = st.node_of_component(o[0]) if st.cls(o[0]) == 'Component' else None
            node = st.name(o[0]) if o else None
        if node is not None:
            cands.append((kind, ref, node))
    final = None
    r = rng.random()
    if r < 0.2:
        tops = [(k, rf, x) for k, rf, x in element_targets(st) if k == 'service' and not rf.get('owned')]
        if tops:
            kind, ref, x = rng.choice(tops)
            final = {'op': 'diff_slivers', 'what': 'service', 'pick': 0, 'svc_name': st.name(x)}
    elif r < 0.4:
        ded = [(k, rf, x) for k, rf, x in element_targets(st) if k == 'interface' and
               (st.typ(x) == 'DedicatedPort' or (st.is_sub(x) and st.parent_cp(x)))]
        if ded:
            kind, ref, x = rng.choice(ded)
            final = {'op': 'diff_slivers', 'what': 'interface', 'pick': 0,
                     'cp': st.parent_cp(x)[0] if st.is_sub(x) else x}
    if final is None:
        if not cands:
            return None
        owned = [c for c in cands if c[0] == 'service']
        kind, ref, node = rng.choice(owned) if owned and rng.random() < 0.4 else rng.choice(cands)
        final = {'op': 'diff_slivers', 'what': 'node', 'pick': 0, 'node_name': node}
    names = [rng.choice(['labels', 'capacities', 'user_data'])]
    if rng.random() < 0.4:
        names = rng.sample(['labels', 'capacities', 'user_data'], rng.choice([2, 3]))
    ckpt_step = {'op': 'checkpoint', 'replace': 0} if len(w.checkpoints) >= 2 else {'op': 'checkpoint'}
    steps = [ckpt_step]
    if final.get('what') == 'interface' and rng.random() < 0.6:
        # two sub-interfaces of the port edited differently (each must be reported with its own flags only); a port
        # with fewer than two gets them first
        kids = st.child_cps(final['cp'])
        pref = iface_ref_(st, final['cp'])
        if pref and st.typ(final['cp']) == 'DedicatedPort':
            names = [st.name(k) for k in sorted(kids)]
            pre = []
            while len(names) < 2:
                nm = '%s-e%d' % (st.name(final['cp']), len(names))
                pre.append({'op': 'add_child_interface', 'iface': pref, 'name': nm, 'vlan': str(120 + len(names)), 'id': None})
                names.append(nm)
            k1, k2 = rng.sample(names, 2)
            steps = pre + [ckpt_step]
            for k, nm in ((k1, 'labels'), (k2, 'capacities')):
                v = gen_value(rng, nm, 'interface')
                if v is None:
                    return None
                steps.append({'op': 'edit_tracked', 'kind': 'interface', 'ref': dict(pref, sub=k), 'name': nm, 'val': v})
            steps.append(dict(final, ckpt=min(len(w.checkpoints), 1)))
            w.stats.inc('probe.diff.two_subinterfaces_edited')
            return steps
    if final.get('what') == 'node' and kind == 'component' and rng.random() < 0.35 and w.cfg['flavour'] == 'experiment':
        # the component is removed and created again under its name (new id) with other capacities: present in both
        # versions by name, so its changes are reported, not swallowed
        model = st.n[[c for c in st.components_of([n_ for n_ in st.of_class('NetworkNode') if st.name(n_) == node][0])
                      if st.name(c) == ref['comp']][0]]
        cat = {'GPU': 'GPU_RTX6000', 'SmartNIC': 'SmartNIC_ConnectX_6', 'SharedNIC': 'SharedNIC_ConnectX_6',
               'NVME': 'NVME_P4510', 'FPGA': 'FPGA_Xilinx_U280'}.get(model.get('Type'))
        if cat:
            steps.append({'op': 'remove_component', 'node': node, 'name': ref['comp']})
            steps.append({'op': 'add_component', 'node': node, 'name': ref['comp'], 'model': cat, 'id': None,
                          'kw': {'capacities': {'_t': 'Capacities', 'a': {'unit': rng.randint(2, 9)}},
                                 'user_data': {'_t': 'UserData', 'a': {'recreated': rng.randint(1, 9)}}}})
            steps.append(dict(final, ckpt=min(len(w.checkpoints), 1)))
            w.stats.inc('probe.diff.recreated_under_same_name')
            return steps
    for nm in names:
        v = gen_value(rng, nm, kind)
        if v is None:
            return None
        steps.append({'op': 'edit_tracked', 'kind': kind, 'ref': ref, 'name': nm, 'val': v})
    steps.append(dict(final, ckpt=min(len(w.checkpoints), 1)))
    w.stats.inc('probe.diff.single_edit_sequences')
    return steps


def iface_ref_(st, cp):
    from .w2_ops import iface_ref
    return iface_ref(st, cp)


# ================================================================ edits applied to a COPY of a sliver (no graph involved)
@op('diff_copy_edit', 'read')
def g_diff_copy_edit(w, rng, st):
    nodes = [n for n in st.of_class('NetworkNode') if st.typ(n) != 'Facility']
    if not nodes:
        return None
    nodes.sort(key=lambda n: -len(st.own_node(n)))
    n = nodes[0] if rng.random() < 0.5 else rng.choice(nodes)
    return {'node': st.name(n), 'edits': [{'kind': rng.choice(['remove_component', 'remove_all_components',
                                                               'remove_service', 'remove_all_services', 'node_prop',
                                                               'component_prop', 'service_prop', 'user_data_rmw',
                                                               'add_component']),
                                           'pick': rng.randrange(100), 'prop': rng.choice(['labels', 'capacities', 'user_data']),
                                           'val': rng.randint(1, 9)} for _ in range(rng.choice([1, 1, 2]))]}


@op('diff_copy_edit', 'read')
def x_diff_copy_edit(w, s, st, info):
    """C17's own wording: 'all single and combined edits applied to a copy'. The node sliver is rebuilt from the graph,
    deep-copied, the copy is edited through the sliver classes' own API, and old.diff(new) / new.diff(old) must report
    exactly the edits (tracked here as they are applied)."""
    import copy
    from fim.slivers.capacities_labels import Labels, Capacities
    from fim.slivers.json_data import UserData
    if st.dups:
        raise SkipStep()
    nn = [n for n in st.of_class('NetworkNode') if st.name(n) == s['node']]
    if len(nn) != 1:
        raise SkipStep()
    n = nn[0]
    for ids in (st.components_of(n), st.services_of(n)):
        names = [st.name(i) for i in ids]
        if len(set(names)) != len(names):
            raise SkipStep()
    nd = w.topo.nodes.get(s['node'])
    if nd is None:
        raise SkipStep()
    a = nd.get_sliver()
    b = copy.deepcopy(a)
    exp = {'added': {'components': set(), 'services': set(), 'interfaces': set()},
           'removed': {'components': set(), 'services': set(), 'interfaces': set()},
           'modified': {'nodes': {}, 'components': {}, 'services': {}, 'interfaces': {}}}

    def comps(x):
        return x.attached_components_info.devices if x.attached_components_info is not None else {}

    def svcs(x):
        return x.network_service_info.network_services if x.network_service_info is not None else {}

    def setprop(el, prop, val, bucket, name):
        if prop == 'labels':
            new = Labels(local_name='edited%d' % val)
            if canon_j(el.get_labels()) == canon_j(new):
                return
            el.set_labels(new)
            exp['modified'][bucket].setdefault(name, set()).add('LABELS')
        elif prop == 'capacities':
            new = Capacities(unit=val + 10)
            if canon_j(el.get_capacities()) == canon_j(new):
                return
            el.set_capacities(new)
            exp['modified'][bucket].setdefault(name, set()).add('CAPACITIES')
        else:
            new = UserData(json.dumps({'edited': val}))
            cur = el.get_user_data()
            if cur is not None and cur.data == new.data:
                return
            el.set_user_data(new)
            exp['modified'][bucket].setdefault(name, set()).add('USER_DATA')
    applied = []
    for e in s['edits']:
        k = e['kind']
        cs, ss = sorted(comps(b)), sorted(svcs(b))
        untouched_c = [c for c in cs if c not in exp['modified']['components'] and c not in exp['added']['components']]
        untouched_s = [x for x in ss if x not in exp['modified']['services']]
        if k == 'remove_component' and untouched_c:
            c = untouched_c[e['pick'] % len(untouched_c)]
            b.attached_components_info.remove_device(c)
            exp['removed']['components'].add(c)
        elif k == 'remove_all_components' and cs and not exp['added']['components'] and not exp['modified']['components']:
            for c in cs:
                b.attached_components_info.remove_device(c)
                exp['removed']['components'].add(c)
        elif k == 'remove_service' and untouched_s:
            x = untouched_s[e['pick'] % len(untouched_s)]
            b.network_service_info.remove_network_service(x)
            exp['removed']['services'].add(x)
        elif k == 'remove_all_services' and ss and not exp['modified']['services']:
            for x in ss:
                b.network_service_info.remove_network_service(x)
                exp['removed']['services'].add(x)
        elif k == 'node_prop':
            setprop(b, e['prop'], e['val'], 'nodes', a.resource_name)
        elif k == 'component_prop' and untouched_c:
            c = untouched_c[e['pick'] % len(untouched_c)]
            if c in exp['removed']['components']:
                continue
            setprop(comps(b)[c], e['prop'], e['val'], 'components', c)
        elif k == 'service_prop' and untouched_s:
            x = untouched_s[e['pick'] % len(untouched_s)]
            setprop(svcs(b)[x], e['prop'], e['val'], 'services', x)
        elif k == 'user_data_rmw':
            # read - modify - write: what .data hands out is the caller's to change
            cur = a.get_user_data()
            d = cur.data if cur is not None else {}
            if not isinstance(d, dict):
                continue
            d['rmw'] = e['val']
            if canon_j(b.get_user_data()) == canon(json.dumps(d, sort_keys=True)):
                continue
            b.set_user_data(UserData(json.dumps(d)))
            exp['modified']['nodes'].setdefault(a.resource_name, set()).add('USER_DATA')
        elif k == 'add_component' and cs and 'copyX' not in cs:
            c2 = copy.deepcopy(comps(b)[cs[e['pick'] % len(cs)]])
            c2.set_name('copyX')
            c2.node_id = 'copy-of-' + str(c2.node_id)
            b.attached_components_info.add_device(c2)
            exp['added']['components'].add('copyX')
        else:
            continue
        applied.append(k)
    if not applied:
        raise SkipStep()
    rexp = swap(exp)
    try:
        d_ab, d_ba = normalise_diff(a.diff(b)), normalise_diff(b.diff(a))
    except Exception as ex:
        w.flag('C17', 'diff_exact', {'what': 'copy', 'symptom': 'raised', 'exc': type(ex).__name__},
               'diff of node sliver %s with its edited copy (%s) raised %r' % (s['node'], applied, ex))
        return
    for got, want, direction in ((d_ab, exp, 'original->copy'), (d_ba, rexp, 'copy->original')):
        if is_empty(want):
            if got is not None:
                w.flag('C17', 'diff_exact', {'what': 'copy', 'symptom': 'difference_where_none'},
                       'node %s %s after %s: nothing differs, the library reports %s' % (s['node'], direction, applied, show(got)))
            continue
        if got is None:
            w.flag('C17', 'diff_exact', {'what': 'copy', 'symptom': 'none_where_difference', 'edits': '+'.join(sorted(set(applied)))},
                   'node %s %s after the edits %s on a copy: expected %s, the library reports no difference' %
                   (s['node'], direction, applied, show(want)))
            return
        for part in ('added', 'removed'):
            for k in ('components', 'services'):
                if got[part].get(k, set()) != want[part][k]:
                    w.flag('C17', 'diff_exact', {'what': 'copy', 'part': part, 'kind': k},
                           'node %s %s after %s: %s %s expected %s, library reports %s' %
                           (s['node'], direction, applied, part, k, sorted(want[part][k]), sorted(got[part].get(k, set()))))
                    return
        for k in ('nodes', 'components', 'services'):
            g = {n_: sorted(f - {'SUB_INTERFACES'}) for n_, f in got['modified'].get(k, {}).items() if f - {'SUB_INTERFACES'}}
            wv = {n_: sorted(f) for n_, f in want['modified'][k].items()}
            if g != wv:
                w.flag('C17', 'diff_exact', {'what': 'copy', 'part': 'modified', 'kind': k},
                       'node %s %s after %s: modified %s expected %s, library reports %s' %
                       (s['node'], direction, applied, k, wv, g))
                return
    w.stats.inc('probe.diff.copy_edit.%s' % '+'.join(sorted(set(applied))))


def canon_j(x):
    """canonical JSON text of a Capacities/Labels/UserData object (None stays None)"""
    if x is None:
        return None
    j = x.to_json() if hasattr(x, 'to_json') else x.json
    try:
        return canon(json.dumps(json.loads(j), sort_keys=True))
    except Exception:
        return canon(j)
