"""
Simulation kernel: seeded PRNG streams, event log + digest, violations,
step recording, delta-debugging minimisation, replay files, known findings.

Everything a run does is a pure function of (run seed, PYTHONHASHSEED, code).
Logging never draws from a PRNG and never reads a clock.
"""
import hashlib
import json
import os
import random
import sys
import time
import traceback
from collections import Counter

VERIF_DIR = os.path.dirname(os.path.dirname(os.path.abspath(__file__)))
REPLAY_DIR = os.environ.get('VERIF_REPLAY_DIR') or os.path.join(VERIF_DIR, 'replays')
EVIDENCE_DIR = os.environ.get('VERIF_EVIDENCE_DIR') or os.path.join(VERIF_DIR, 'evidence')
KNOWN_FINDINGS = os.path.join(VERIF_DIR, 'known_findings.json')

MASK64 = (1 << 64) - 1


def derive(seed, *names):
    """64-bit value derived from a seed and a path of names (stable across processes)."""
    h = hashlib.sha256(('%d|' % seed + '|'.join(str(n) for n in names)).encode()).digest()
    return int.from_bytes(h[:8], 'big')


class Streams:
    """Independent PRNG streams split by name, so a draw added to one does not shift another."""

    def __init__(self, seed):
        self.seed = seed
        self._s = {}

    def get(self, name):
        r = self._s.get(name)
        if r is None:
            r = self._s[name] = random.Random(derive(self.seed, 'stream', name))
        return r


def canon(obj):
    """Canonical JSON text of a JSON-able object (sorted keys)."""
    return json.dumps(obj, sort_keys=True, ensure_ascii=True, default=_default)


def _default(o):
    if isinstance(o, (set, frozenset)):
        return sorted(o, key=repr)
    if isinstance(o, tuple):
        return list(o)
    return repr(o)


def h8(text):
    return hashlib.sha256(text.encode()).hexdigest()[:16]


class Violation(Exception):
    """A property violation found by an oracle."""

    def __init__(self, prop, oracle, signature, detail):
        super().__init__('%s/%s: %s' % (prop, oracle, detail))
        self.prop = prop
        self.oracle = oracle
        sig = {'oracle': oracle}
        sig.update(signature or {})
        self.signature = sig
        self.detail = detail
        self.step = None

    def to_json(self):
        return {'property': self.prop, 'oracle': self.oracle, 'signature': self.signature,
                'detail': self.detail[:4000], 'step': self.step}


class HarnessError(Exception):
    """Something wrong in the machinery itself (never a pass, never a violation)."""


class SkipStep(Exception):
    """A replayed step whose symbolic target no longer exists after shrinking."""


class EventLog:
    def __init__(self, keep=True):
        self.keep = keep
        self.lines = []
        self._h = hashlib.sha256()
        self.n = 0

    def add(self, *fields):
        line = canon(list(fields))
        self._h.update(line.encode())
        self._h.update(b'\n')
        self.n += 1
        if self.keep:
            self.lines.append(line)

    def digest(self):
        return self._h.hexdigest()


class Stats:
    """Nested counters addressed by dotted keys; mergeable."""

    def __init__(self):
        self.c = Counter()

    def inc(self, key, n=1):
        self.c[key] += n

    def merge(self, other):
        if isinstance(other, Stats):
            other = other.c
        for k, v in other.items():
            self.c[k] += v

    def tree(self):
        out = {}
        for k in sorted(self.c):
            parts = k.split('.')
            d = out
            for p in parts[:-1]:
                nxt = d.get(p)
                if not isinstance(nxt, dict):
                    nxt = d[p] = {} if nxt is None else {'_': nxt}
                d = nxt
            if isinstance(d.get(parts[-1]), dict):
                d[parts[-1]]['_'] = self.c[k]
            else:
                d[parts[-1]] = self.c[k]
        return out


class RunResult:
    def __init__(self):
        self.seed = None
        self.config = None
        self.steps = []          # recorded (executed) steps
        self.violation = None    # Violation or None
        self.digest = None
        self.stats = Stats()
        self.state_hashes = set()
        self.nontrivial = False
        self.log_lines = None
        self.skipped = 0


class World:
    """
    A simulated world.  Subclasses implement:
      name, draw_config(rng) -> dict, __init__(seed, cfg, log, stats),
      gen_step(rng) -> step dict or None (run ends),
      exec_step(step) -> None   (raises Violation / SkipStep),
      finish() -> None  (end-of-run oracles; may raise Violation), close()
    """
    name = 'W?'

    @classmethod
    def draw_config(cls, rng, prop, tier):
        raise NotImplementedError

    def is_nontrivial(self):
        return True


def run_world(world_cls, seed, prop, tier, cfg=None, steps=None, keep_log=False, max_steps=None):
    """
    Execute one run.  If `steps` is None the run is generated from the seed;
    otherwise exactly the given recorded steps are executed (replay / shrinking).
    """
    res = RunResult()
    res.seed = seed
    streams = Streams(seed)
    if cfg is None:
        cfg = world_cls.draw_config(streams.get('config'), prop, tier)
    res.config = cfg
    log = EventLog(keep=keep_log)
    log.add('run', world_cls.name, seed, os.environ.get('PYTHONHASHSEED', '?'), cfg)
    world = world_cls(seed, cfg, log, res.stats, streams)
    cap = max_steps or cfg.get('step_cap', 400)
    try:
        try:
            if steps is None:
                rng = streams.get('workload')
                i = 0
                while True:
                    if i >= cap:
                        raise HarnessError('step cap %d reached' % cap)
                    step = world.gen_step(rng)
                    if step is None:
                        break
                    step = json.loads(canon(step))   # recorded form == executed form
                    res.steps.append(step)
                    world.cur_step = i
                    try:
                        world.exec_step(step)
                    except SkipStep:
                        res.steps.pop()
                        res.skipped += 1
                        log.add('skip', i)
                    i += 1
            else:
                for i, step in enumerate(steps):
                    world.cur_step = i
                    res.steps.append(step)
                    try:
                        world.exec_step(step)
                    except SkipStep:
                        res.steps.pop()
                        res.skipped += 1
                        log.add('skip', i)
            world.finish()
        except Violation as v:
            v.step = len(res.steps) - 1
            res.violation = v
            log.add('violation', v.prop, v.oracle, v.signature)
    finally:
        try:
            world.close()
        except Exception:
            pass
    res.digest = log.digest()
    res.nontrivial = world.is_nontrivial()
    res.state_hashes = getattr(world, 'state_hashes', set())
    if keep_log:
        res.log_lines = log.lines
    return res


def sig_key(sig):
    return canon(sig)


def minimise(world_cls, seed, prop, tier, cfg, steps, target_sig, budget_runs=300, budget_s=60.0,
             simplify=None):
    """
    Delta debugging over the recorded step list.  A candidate is kept only if
    replaying it from a fresh world yields a violation with the same signature.
    `simplify(step)` may yield simpler variants of one step.
    """
    t0 = time.time()
    used = [0]
    want = sig_key(target_sig)

    def test(cand):
        if used[0] >= budget_runs or time.time() - t0 > budget_s:
            return None
        used[0] += 1
        try:
            r = run_world(world_cls, seed, prop, tier, cfg=cfg, steps=cand)
        except HarnessError:
            return None
        except Exception:
            return None
        if r.violation is not None and sig_key(r.violation.signature) == want:
            return r.steps
        return None

    cur = list(steps)
    # the violation is raised at the last executed step: drop chunks of earlier steps
    n = 2
    while len(cur) >= 2:
        chunk = max(1, len(cur) // n)
        reduced = False
        i = 0
        while i < len(cur):
            cand = cur[:i] + cur[i + chunk:]
            if cand:
                r = test(cand)
                if r is not None:
                    cur = r
                    reduced = True
                    n = max(n - 1, 2)
                    continue
            i += chunk
        if not reduced:
            if chunk == 1:
                break
            n = min(n * 2, len(cur))
        if used[0] >= budget_runs or time.time() - t0 > budget_s:
            break
    if simplify is not None:
        changed = True
        while changed and used[0] < budget_runs and time.time() - t0 <= budget_s:
            changed = False
            for i in range(len(cur)):
                for simpler in simplify(cur[i]):
                    cand = cur[:i] + [simpler] + cur[i + 1:]
                    r = test(cand)
                    if r is not None and len(r) == len(cur):
                        cur = r
                        changed = True
                        break
    return cur, used[0]


def load_known_findings():
    try:
        with open(KNOWN_FINDINGS) as f:
            data = json.load(f)
    except FileNotFoundError:
        return []
    return data.get('findings', [])


def match_known(violation_json, findings):
    """An open finding matches when every key of its signature equals the violation's."""
    sig = violation_json['signature']
    for f in findings:
        if f.get('status') != 'open' or f.get('property') != violation_json['property']:
            continue
        if all(sig.get(k) == v for k, v in f.get('signature', {}).items()):
            return f
    return None


def write_replay(prop, world_name, seed, hashseed, cfg, steps, violation, digest, minimised_from, tier, prelude=None,
                 original_steps=None):
    os.makedirs(REPLAY_DIR, exist_ok=True)
    path = os.path.join(REPLAY_DIR, '%s-%d.json' % (prop, seed))
    doc = {'format': 1, 'property': prop, 'world': world_name, 'tier': tier, 'seed': seed,
           'pythonhashseed': hashseed, 'config': cfg, 'steps': steps,
           'violation': violation, 'digest': digest, 'minimised_from': minimised_from,
           'prelude_seeds': list(prelude or []), 'original_steps': original_steps if original_steps != steps else None}
    tmp = path + '.tmp%d' % os.getpid()
    with open(tmp, 'w') as f:
        json.dump(doc, f, indent=1, sort_keys=True)
    os.replace(tmp, path)
    return path


def fmt_exc():
    return traceback.format_exc()
