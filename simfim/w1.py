"""
W1 — the store world.  2-4 clients issue property-graph operations against the
shared-store backend, the one-graph-per-store backend and PGModel in lock step.
Decides C01 (round trip), C04 (isolation), C05 (agreement), C06 (queries) and
C20 part A (lock discipline on every path, sequential).
"""
import io
import json
import os
import uuid as _uuid

from .kernel import World, Violation, SkipStep, HarnessError, canon, h8
from .pgmodel import PGModel, ModelExc, QE, IE, AE, CLASS, NODE_ID, GRAPH_ID, JSON_PROPERTY_NAMES, PINNED_RULES
from .values import adv_str, adv_int, wchoice
from . import seams
from . import queries

BACKENDS = ('shared', 'disjoint')
NODE_IDS = ['a', 'b', 'c', 'd', 'e', 'x y', 'q"1']
CLASSES = ['NetworkNode', 'Component', 'NetworkService', 'ConnectionPoint', 'Link', 'CompositeLink', 'CompositeNode']
RELS = ['has', 'connects', 'depends']
STR_PROPS = ['P0', 'P1', 'Name', 'Type', 'Site']
INT_PROPS = ['I0']
JSON_PROPS = ['Labels', 'Capacities']
TYPES = ['VM', 'Server', 'SmartNIC', 'L2Bridge']
NAMES = ['n1', 'n2', 'nic', 'if 1']
ENTRIES = ['from_string', 'from_file', 'from_string_direct', 'from_file_direct']
FMTS = ['GRAPHML', 'JSON_NODELINK']

READ_OPS = ('get_node_properties', 'get_link_properties', 'get_node_json_property_as_object',
            'list_all_node_ids', 'get_all_nodes_by_class', 'get_all_nodes_by_class_and_type',
            'node_exists', 'check_node_unique', 'graph_exists', 'get_stitch_nodes', 'validate_graph',
            'find_matching_nodes', 'cast_graph', 'serialize')
QUERY_OPS = ('q_first', 'q_two_hop', 'q_shortest', 'q_hops', 'q_parent', 'q_peers', 'q_cps')

BASE_MIX = {
    'add_node': 10, 'delete_node': 3, 'add_link': 8,
    'update_node_property': 4, 'update_node_properties': 3, 'unset_node_property': 3, 'update_nodes_property': 2,
    'update_link_property': 2, 'update_link_properties': 2, 'unset_link_property': 2,
    'get_node_properties': 2, 'get_link_properties': 2, 'get_node_json_property_as_object': 1,
    'list_all_node_ids': 2, 'get_all_nodes_by_class': 1, 'get_all_nodes_by_class_and_type': 1,
    'node_exists': 1, 'check_node_unique': 1, 'graph_exists': 1, 'get_stitch_nodes': 1, 'validate_graph': 1,
    'find_matching_nodes': 1, 'merge_nodes': 2, 'clone_graph': 2, 'delete_graph': 2, 'cast_graph': 1,
    'import_text': 6, 'roundtrip': 3, 'new_importer': 0.6, 'delete_all_graphs': 0.25,
    'q_first': 2, 'q_two_hop': 2, 'q_shortest': 2, 'q_hops': 1, 'q_parent': 1, 'q_peers': 1, 'q_cps': 1,
}
PROP_BOOST = {
    'C01': {'roundtrip': 12, 'import_text': 8},
    'C04': {'import_text': 10, 'clone_graph': 5, 'delete_graph': 4, 'update_nodes_property': 4},
    'C05': {},
    'C06': {'q_first': 8, 'q_two_hop': 8, 'q_shortest': 8, 'q_hops': 5, 'q_parent': 3, 'q_peers': 3, 'q_cps': 3,
            'add_link': 14, 'add_node': 12, 'merge_nodes': 8, 'import_text': 8},
    'C20': {'import_text': 10, 'delete_graph': 5, 'clone_graph': 4, 'add_node': 10, 'crash_enum': 6},
}


def classify(e):
    from fim.graph.abc_property_graph import PropertyGraphQueryException, PropertyGraphImportException
    if isinstance(e, PropertyGraphQueryException):
        return QE
    if isinstance(e, PropertyGraphImportException):
        return IE
    if isinstance(e, AssertionError):
        return AE
    return 'other:' + type(e).__name__


def norm(v):
    """canonical, order-free form of a returned value"""
    if isinstance(v, (set, frozenset)):
        return sorted((norm(x) for x in v), key=canon)
    if isinstance(v, tuple):
        return [norm(x) for x in v]
    if isinstance(v, list):
        return [norm(x) for x in v]
    if isinstance(v, dict):
        return {str(k): norm(x) for k, x in v.items()}
    return v


def msort(lst):
    return sorted(lst, key=canon)


class W1World(World):
    name = 'W1'

    @classmethod
    def draw_config(cls, rng, prop, tier):
        mix = dict(BASE_MIX)
        for k, w in PROP_BOOST.get(prop, {}).items():
            mix[k] = w
        # swarm: disable a random subset of operation kinds, scale others
        for k in list(mix):
            r = rng.random()
            if r < 0.12 and k not in ('add_node', 'import_text', 'crash_enum'):
                mix[k] = 0
            elif r < 0.3:
                mix[k] = mix[k] * 3
        short = rng.random() < 0.35
        cfg = {
            'prop': prop,
            'clients': rng.randint(2, 4),
            'graphs_per_client': rng.randint(1, 2),
            'steps': rng.randint(2, 6) if short else rng.randint(8, 40),
            'mix': mix,
            'p_existing': rng.choice([0.6, 0.8, 0.95]),
            'avoid_known': rng.random() < 0.8,
            'io_faults': (prop == 'C01' and rng.random() < 0.4),
            'io_fault_rate': rng.choice([0.05, 0.15, 0.3]),
            'p_directed': rng.choice([0.0, 0.3, 0.6]),
            'retain_pg': rng.random() < 0.4,
            'step_cap': 200,
        }
        return cfg

    def __init__(self, seed, cfg, log, stats, streams):
        self.seed, self.cfg, self.log, self.stats = seed, cfg, log, stats
        self.prop = cfg['prop']
        self.cur_step = 0
        self.pending = []
        self._args = []
        self._pgs = {}
        self.state_hashes = set()
        self.mutations = 0
        self.faults_fired = 0
        self.model = PGModel()
        self.avoid = seams.avoid_set() if cfg.get('avoid_known') else set()
        self.seam = seams.Seams(streams, stats)
        self.seam.install_uuid()
        self.scratch = self.seam.make_scratch()
        if cfg.get('io_faults'):
            import fim.graph.networkx_property_graph as _m1
            import fim.graph.abc_property_graph as _m2
            self.seam.enable_io_faults([_m1, _m2], cfg['io_fault_rate'],
                                       ['enospc', 'short_write', 'eio', 'missing'])
        self.fault_rng = streams.get('faults')
        self.values_rng = streams.get('values')
        self.imp = {}
        self.locks = {}
        from fim.graph.networkx_property_graph import NetworkXGraphStorage, NetworkXGraphImporter
        from fim.graph.networkx_property_graph_disjoint import NetworkXGraphStorageDisjoint, \
            NetworkXGraphImporterDisjoint
        NetworkXGraphStorage.storage_instance = None
        NetworkXGraphStorageDisjoint.storage_instance = None
        self.imp['shared'] = NetworkXGraphImporter()
        self.imp['disjoint'] = NetworkXGraphImporterDisjoint()
        for b in BACKENDS:
            inst = self.imp[b].storage.storage_instance
            self.locks[b] = seams.SimLock(b)
            inst.lock = self.locks[b]
        self.client_graphs = {}
        for c in range(cfg['clients']):
            self.client_graphs[c] = ['G-c%d-%d' % (c, j) for j in range(cfg['graphs_per_client'])]
        self.extra = 0
        self.disjoint_known_ids = set()   # ids the disjoint store has ever been asked about
        self.steps_done = 0
        self.file_counter = 0

    def close(self):
        self.seam.uninstall()
        from fim.graph.networkx_property_graph import NetworkXGraphStorage
        from fim.graph.networkx_property_graph_disjoint import NetworkXGraphStorageDisjoint
        NetworkXGraphStorage.storage_instance = None
        NetworkXGraphStorageDisjoint.storage_instance = None

    def is_nontrivial(self):
        if self.cfg.get('io_faults'):
            return self.mutations > 0 and self.faults_fired > 0
        return self.mutations > 0

    # ------------------------------------------------------------------ violations
    def flag(self, prop, oracle, sig, detail):
        self.pending.append(Violation(prop, oracle, sig, detail))

    def end_step(self):
        if self.pending:
            own = [v for v in self.pending if v.prop == self.prop]
            v = own[0] if own else self.pending[0]
            self.pending = []
            raise v

    # ------------------------------------------------------------------ generation
    def all_graphs(self):
        out = []
        for c in sorted(self.client_graphs):
            out.extend(self.client_graphs[c])
        return out

    def pick_graph(self, rng, client, nonempty=None):
        own = self.client_graphs[client]
        cands = own
        if nonempty is True:
            ne = [g for g in own if self.model.gnodes(g)]
            if ne:
                cands = ne
        return rng.choice(cands)

    def pick_node(self, rng, g):
        ks = sorted(k[1] for k in self.model.gnodes(g))
        if ks and rng.random() < self.cfg['p_existing']:
            return rng.choice(ks)
        return rng.choice(NODE_IDS)

    def pick_edge(self, rng, g):
        es = sorted(sorted(x[1] for x in ek) for ek in self.model.edges if all(x[0] == g for x in ek))
        if es and rng.random() < self.cfg['p_existing']:
            e = rng.choice(es)
            a, b = (e[0], e[0]) if len(e) == 1 else (e[0], e[1])
            if rng.random() < 0.5:
                a, b = b, a
            return a, b
        return self.pick_node(rng, g), self.pick_node(rng, g)

    def gen_props(self, rng, allow_identity=False, maxn=3):
        props = {}
        for _ in range(rng.randint(0, maxn)):
            k = rng.random()
            if k < 0.5:
                name = rng.choice(STR_PROPS)
                if name == 'Type':
                    val = rng.choice(TYPES)
                elif name == 'Name':
                    val = rng.choice(NAMES)
                else:
                    val = adv_str(rng)
            elif k < 0.58:
                name, val = rng.choice(INT_PROPS), adv_int(rng)
            elif k < 0.65:
                # one name, values of either type (GraphML needs one key per name/type/scope)
                name, val = 'M0', (adv_int(rng) if rng.random() < 0.5 else adv_str(rng))
            elif k < 0.8:
                name = rng.choice(JSON_PROPS)
                val = rng.choice(['{"core": 1}', '{}', '', 'None', '{bad', '[1]', '{"vlan": "1-3"}'])
            elif k < 0.9:
                name, val = 'StitchNode', rng.choice(['true', 'false'])
            else:
                name, val = rng.choice(STR_PROPS[:2]), adv_str(rng)
            props[name] = val
        return props

    def gen_prop_name(self, rng, identity_ok=True):
        r = rng.random()
        if identity_ok and r < 0.3:
            return rng.choice(['Class', 'NodeID', 'GraphID', 'Type', 'Name'])
        return rng.choice(STR_PROPS + INT_PROPS + JSON_PROPS + ['StitchNode', 'M0'])

    def gen_value_for(self, rng, name):
        if name in INT_PROPS:
            return adv_int(rng)
        if name == 'M0':
            return adv_int(rng) if rng.random() < 0.5 else adv_str(rng)
        if name == 'Type':
            return rng.choice(TYPES)
        if name == 'Name':
            return rng.choice(NAMES)
        if name in JSON_PROPS:
            return rng.choice(['{"core": 2}', '{}', '{bad', 'None'])
        if name == 'StitchNode':
            return rng.choice(['true', 'false'])
        if name == 'Class':
            return rng.choice(CLASSES)
        return adv_str(rng)

    def gen_desc(self, rng, kind, gid_for_direct):
        """a raw graph description with node keys n0, n1, ... (keys collide between imports by design)"""
        n = 0 if kind == 'empty_graph' else rng.randint(1, 6)
        ids = list(NODE_IDS)
        rng.shuffle(ids)
        nodes = []
        for i in range(n):
            p = {NODE_ID: ids[i], CLASS: rng.choice(CLASSES)}
            p.update(self.gen_props(rng))
            if rng.random() < 0.5:
                p.setdefault('Name', rng.choice(NAMES))
            if rng.random() < 0.4:
                p.setdefault('Type', rng.choice(TYPES))
            nodes.append(['n%d' % i, p])
        if kind == 'no_node_id' and nodes:
            del rng.choice(nodes)[1][NODE_ID]
        edges = []
        seen = set()
        for _ in range(rng.randint(0, min(8, n * 2))):
            a, b = rng.randrange(n), rng.randrange(n)
            if a == b or (min(a, b), max(a, b)) in seen:
                continue
            seen.add((min(a, b), max(a, b)))
            ep = {CLASS: rng.choice(RELS)}
            if rng.random() < 0.3:
                ep[rng.choice(['P0', 'I0'])] = adv_str(rng) if rng.random() < 0.5 else adv_int(rng)
                # keep I0 int / P0 str typed consistently
                for k in list(ep):
                    if k == 'I0' and not isinstance(ep[k], int):
                        ep[k] = adv_int(rng)
                    if k == 'P0' and not isinstance(ep[k], str):
                        ep[k] = adv_str(rng)
            if rng.random() < 0.25:
                ep['M0'] = adv_int(rng) if rng.random() < 0.5 else adv_str(rng)
            edges.append(['n%d' % a, 'n%d' % b, ep])
        d = {'nodes': nodes, 'edges': edges}
        if rng.random() < self.cfg.get('p_directed', 0.0):
            d['directed'] = True       # text as a directed exporter (Neo4j, yEd) writes it
        return d

    def gen_step(self, rng):
        if self.steps_done >= self.cfg['steps']:
            return None
        self.steps_done += 1
        client = rng.randrange(self.cfg['clients'])
        op = wchoice(rng, self.cfg['mix'])
        g = self.pick_graph(rng, client, nonempty=(rng.random() < 0.8))
        s = {'actor': 'c%d' % client, 'op': op, 'g': g}
        m = self.model
        if op == 'add_node':
            s.update(n=self.pick_node(rng, g) if rng.random() < 0.25 else rng.choice(NODE_IDS),
                     label=rng.choice(CLASSES), props=self.gen_props(rng))
            if rng.random() < 0.6:
                s['props'].setdefault('Name', rng.choice(NAMES))
                s['props'].setdefault('Type', rng.choice(TYPES))
            if 'add_node_same_id_other_class' in self.avoid and (g, s['n']) in m.nodes:
                s['label'] = m.nodes[(g, s['n'])][CLASS]
        elif op == 'delete_node':
            s.update(n=self.pick_node(rng, g))
        elif op == 'add_link':
            a, b = self.pick_node(rng, g), self.pick_node(rng, g)
            lp = {}
            if rng.random() < 0.3:
                lp['P0'] = adv_str(rng)
            if rng.random() < 0.15:
                lp['I0'] = adv_int(rng)
            if rng.random() < 0.2:
                lp['M0'] = adv_int(rng) if rng.random() < 0.5 else adv_str(rng)
            s.update(a=a, b=b, rel=rng.choice(RELS), props=lp if (lp or rng.random() < 0.5) else None)
        elif op in ('update_node_property',):
            name = self.gen_prop_name(rng)
            if name in ('NodeID', 'GraphID'):
                name = 'Class'   # re-homing by GraphID rewrite belongs to C14; NodeID rewrite is not exercised
            s.update(n=self.pick_node(rng, g), name=name, val=self.gen_value_for(rng, name))
        elif op == 'update_node_properties':
            props = self.gen_props(rng, maxn=3)
            if rng.random() < 0.2:
                props['Class'] = rng.choice(CLASSES)
            order = sorted(props)
            rng.shuffle(order)          # the recorded step sorts dict keys; the call order of the keys is kept here
            s.update(n=self.pick_node(rng, g), props=props, order=order)
        elif op == 'unset_node_property':
            n = self.pick_node(rng, g)
            have = sorted(m.nodes.get((g, n), {}).keys())
            name = rng.choice(have) if have and rng.random() < 0.7 else self.gen_prop_name(rng)
            s.update(n=n, name=name)
        elif op == 'update_nodes_property':
            name = self.gen_prop_name(rng)
            if name in ('NodeID', 'GraphID'):
                name = 'Class'
            s.update(name=name, val=self.gen_value_for(rng, name))
        elif op in ('update_link_property', 'unset_link_property', 'update_link_properties'):
            a, b = self.pick_edge(rng, g)
            e = m.edges.get(frozenset({(g, a), (g, b)}))
            kind = e[CLASS] if e is not None and rng.random() < 0.85 else rng.choice(RELS)
            s.update(a=a, b=b, kind=kind)
            if op == 'update_link_properties':
                props = {}
                if rng.random() < 0.7:
                    props['P0'] = adv_str(rng)
                if rng.random() < 0.3:
                    props['I0'] = adv_int(rng)
                if rng.random() < 0.15:
                    props['Class'] = rng.choice(RELS)
                order = sorted(props)
                rng.shuffle(order)
                s.update(props=props, order=order)
            else:
                name = rng.choice(['P0', 'I0', 'P1', 'Class'])
                s.update(name=name)
                if op == 'update_link_property':
                    s.update(val=adv_int(rng) if name == 'I0' else
                             (rng.choice(RELS) if name == 'Class' else adv_str(rng)))
        elif op == 'get_node_properties':
            s.update(n=self.pick_node(rng, g))
        elif op == 'get_link_properties':
            a, b = self.pick_edge(rng, g)
            s.update(a=a, b=b)
        elif op == 'get_node_json_property_as_object':
            n = self.pick_node(rng, g)
            cands = [k for k, v in sorted(m.nodes.get((g, n), {}).items()) if isinstance(v, str)]
            s.update(n=n, name=rng.choice(cands) if cands and rng.random() < 0.8 else 'Labels')
        elif op == 'delete_all_graphs':
            pass
        elif op == 'new_importer':
            s.update(logger=rng.choice([None, 'logger', 'logger']), adopt=rng.random() < 0.5)
        elif op in ('list_all_node_ids', 'graph_exists', 'get_stitch_nodes', 'validate_graph', 'cast_graph',
                    'delete_graph'):
            if op == 'delete_graph':
                s.update(via=rng.choice(['graph', 'importer']))
            if op == 'validate_graph' and not m.gnodes(g):
                pass
        elif op == 'get_all_nodes_by_class':
            s.update(label=rng.choice(CLASSES))
        elif op == 'get_all_nodes_by_class_and_type':
            s.update(label=rng.choice(CLASSES), ntype=rng.choice(TYPES))
        elif op == 'node_exists':
            s.update(n=self.pick_node(rng, g), label=rng.choice(CLASSES))
        elif op == 'check_node_unique':
            s.update(label=rng.choice(CLASSES), name=rng.choice(NAMES))
        elif op in ('find_matching_nodes', 'merge_nodes'):
            others = [x for x in self.all_graphs() if x != g and m.gnodes(x)]
            if not others or not m.gnodes(g):
                s['op'] = 'graph_exists'
            else:
                h = rng.choice(others)
                # merging several nodes of the same other graph (as a combined-model merge does) is the interesting case
                linked = sorted(set(y[0] for ek in m.edges if any(x[0] == g for x in ek) for y in ek if y[0] != g))
                linked = [x for x in linked if x in others]
                if linked and rng.random() < 0.6:
                    h = rng.choice(linked)
                s.update(h=h)
                if op == 'merge_nodes':
                    common = sorted(set(k[1] for k in m.gnodes(g)) & set(k[1] for k in m.gnodes(h)))
                    n = rng.choice(common) if common and rng.random() < 0.85 else self.pick_node(rng, g)
                    pol = None
                    if rng.random() < 0.7:
                        pol = {}
                        own = m.nodes.get((g, n), {})
                        oth = m.nodes.get((h, n), {})
                        for k in sorted(own):
                            if k in (CLASS, NODE_ID, GRAPH_ID):
                                continue
                            if rng.random() < 0.6:
                                choice = rng.choice(['discard', 'overwrite', 'combine'])
                                if choice != 'discard' and k not in oth:
                                    choice = 'discard'   # precondition: the other node has the property
                                pol[k] = choice
                    s.update(n=n, policy=pol)
        elif op == 'clone_graph':
            if not m.gnodes(g):
                s['op'] = 'graph_exists'
            else:
                self.extra += 1
                new = 'G-%s-x%d' % (s['actor'], self.extra)
                r = rng.random()
                if r < 0.2:
                    new = rng.choice(self.client_graphs[client])
                elif r < 0.45:
                    new = g + '-copy'        # an id that contains the source's id (as '<id>-clone' names do)
                if new == g:
                    new = 'G-%s-x%d' % (s['actor'], self.extra)
                if new not in self.client_graphs[client]:
                    self.client_graphs[client].append(new)
                s.update(new=new)
        elif op == 'import_text':
            kind = wchoice(rng, {'good': 10, 'no_node_id': 1.5, 'malformed': 1, 'mixed_graph_ids': 1,
                                 'empty_graph': 1, 'no_graph_id': 1, 'enumerated': 1.5})
            entry = rng.choice(ENTRIES)
            fmt = rng.choice(FMTS)
            if kind == 'enumerated':
                entry, fmt = rng.choice(['from_string', 'from_file']), 'GRAPHML'
            if rng.random() < 0.5:
                # import into one of the client's own ids (possibly re-import / delete-then-reimport)
                tgt = rng.choice(self.client_graphs[client])
            else:
                self.extra += 1
                tgt = 'G-%s-x%d' % (s['actor'], self.extra)
                self.client_graphs[client].append(tgt)
            desc = self.gen_desc(rng, kind, tgt)
            if kind == 'enumerated':
                # some nodes come without (or with an empty) NodeID: enumerate_graph_nodes* must number them
                for i, (_, p) in enumerate(desc['nodes']):
                    r = rng.random()
                    if r < 0.4:
                        p.pop(NODE_ID, None)
                    elif r < 0.5:
                        p[NODE_ID] = ''
                s['variant'] = rng.choice(['to_string', 'to_file'])
            direct = entry.endswith('direct')
            if direct:
                for i, (_, p) in enumerate(desc['nodes']):
                    if kind == 'no_graph_id' and i == 0:
                        continue
                    p[GRAPH_ID] = tgt
                if kind == 'mixed_graph_ids' and len(desc['nodes']) > 1:
                    desc['nodes'][-1][1][GRAPH_ID] = tgt + '-other'
                if kind == 'no_node_id':
                    kind = 'good'
                    for i, (_, p) in enumerate(desc['nodes']):
                        p.setdefault(NODE_ID, 'z%d' % i)
            else:
                if kind == 'mixed_graph_ids':
                    for i, (_, p) in enumerate(desc['nodes']):
                        p[GRAPH_ID] = 'junk%d' % i     # must be overwritten by the import
            if kind == 'no_node_id' and m.gnodes(tgt):
                # PINNED scope: failing imports are only issued for ids not stored (see DESIGN)
                self.extra += 1
                tgt = 'G-%s-x%d' % (s['actor'], self.extra)
                self.client_graphs[client].append(tgt)
            s.update(g=tgt, kind=kind, entry=entry, fmt=fmt, desc=desc)
        elif op == 'roundtrip':
            if not m.gnodes(g):
                s['op'] = 'graph_exists'
            else:
                self.extra += 1
                new = 'G-%s-r%d' % (s['actor'], self.extra)
                # sometimes an id the store has seen before and that holds nothing now (deleted, or only probed)
                empties = [x for x in self.client_graphs[client] if not m.gnodes(x) and x != g]
                if empties and rng.random() < 0.35:
                    new = rng.choice(empties)
                s.update(fmt=rng.choice(FMTS), entry=rng.choice(ENTRIES), cross=rng.random() < 0.4, new=new)
                if s['entry'].endswith('direct') and g in getattr(self, 'saved', {}) and rng.random() < 0.5:
                    # "save, keep editing, load the saved text again": the text serialized by an earlier step
                    s.update(saved=True, fmt=self.saved[g]['fmt'])
                if new not in self.client_graphs[client]:
                    self.client_graphs[client].append(new)
        elif op in QUERY_OPS:
            queries.gen_query(self, rng, s, g)
        elif op == 'crash_enum':
            gen_crash_enum(self, rng, s)
        return s

    # ------------------------------------------------------------------ execution
    def pg(self, b, gid):
        imp = self.imp[b]
        if self.cfg.get('retain_pg'):
            # the graph object a caller keeps in a variable across calls (and across delete / re-import of its id)
            key = (b, gid, id(imp))
            h = self._pgs.get(key)
            if h is None:
                h = self._pgs[key] = imp.graph_class(graph_id=gid, importer=imp)
            return h
        return imp.graph_class(graph_id=gid, importer=imp)

    def touch(self, gid):
        self.disjoint_known_ids.add(gid)

    def real_call(self, b, fn):
        """run fn(backend) -> value; returns ('ok', normvalue) | ('exc', class); checks the lock"""
        lock = self.locks[b]
        lock.reset()
        try:
            v = fn(b)
            out = ('ok', norm(v))
        except seams.SimDeadlock:
            out = ('exc', 'deadlock')
        except HarnessError:
            raise
        except Exception as e:
            out = ('exc', classify(e))
            self._last_exc = e
        self.check_lock(b)
        return out

    def check_lock(self, b):
        lock = self.locks[b]
        op = self._cur_op
        for err in lock.errors:
            self.flag('C20', 'lock_no_double_release' if err == 'double_release' else 'later_caller_not_blocked',
                      {'store': b, 'op': op, 'symptom': err, 'cond': self._cur_cond},
                      'store=%s op=%s: %s (acquires=%d releases=%d)' % (b, op, err, lock.acq, lock.rel))
        if lock.held:
            self.flag('C20', 'lock_not_held_on_exit', {'store': b, 'op': op, 'symptom': 'held_on_exit',
                                                       'cond': self._cur_cond},
                      'store=%s op=%s left the store lock held' % (b, op))
            lock.force_release()
        elif lock.acq != lock.rel and not lock.errors:
            self.flag('C20', 'lock_balanced', {'store': b, 'op': op, 'symptom': 'unbalanced', 'cond': self._cur_cond},
                      'store=%s op=%s acquires=%d releases=%d' % (b, op, lock.acq, lock.rel))
        self.stats.inc('lock.acquires.%s' % b, lock.acq)
        lock.reset()

    def real_state(self, b):
        inst = self.imp[b].storage.storage_instance
        nodes, edges = {}, {}
        if b == 'shared':
            G = inst.graphs

            def key(n):
                d = G.nodes[n]
                return '%s|%s' % (d.get(GRAPH_ID), d.get(NODE_ID))
            for n, d in G.nodes(data=True):
                nodes.setdefault(key(n), []).append(norm(dict(d)))
            for a, z, d in G.edges(data=True):
                edges["~".join(sorted({key(a), key(z)}))] = norm(dict(d))
            ints = list(G.nodes)
            sid = getattr(inst, 'start_id', None)
            if sid is not None and ints and all(isinstance(i, int) for i in ints) and sid <= max(ints):
                self.flag('C04', 'internal_ids_unique', {'store': b, 'symptom': 'counter_behind', 'op': self._cur_op},
                          'shared store: next internal id %r is not beyond the largest in use %r' % (sid, max(ints)))
                # the same fact is C20's "no internal identifier is handed out twice" (sequential, incl. failing calls)
                self.flag('C20', 'no_internal_id_twice', {'store': b, 'symptom': 'counter_behind', 'op': self._cur_op,
                                                          'sequential': True},
                          'shared store: next internal id %r is not beyond the largest in use %r: the next node gets an '
                          'identifier that is already in use' % (sid, max(ints)))
        else:
            for gid in sorted(inst.graphs.keys()):
                G = inst.graphs[gid]

                def key(n, G=G):
                    d = G.nodes[n]
                    return '%s|%s' % (d.get(GRAPH_ID), d.get(NODE_ID))
                for n, d in G.nodes(data=True):
                    if d.get(GRAPH_ID) != gid:
                        self.flag('C04', 'one_graph_id_per_node', {'store': b, 'op': self._cur_op},
                                  'node %r filed under graph %r carries GraphID %r' % (d.get(NODE_ID), gid,
                                                                                       d.get(GRAPH_ID)))
                    nodes.setdefault(key(n), []).append(norm(dict(d)))
                for a, z, d in G.edges(data=True):
                    edges["~".join(sorted({key(a), key(z)}))] = norm(dict(d))
                ints = list(G.nodes)
                ctr = getattr(inst, 'graph_node_ids', None)
                if ctr is not None and ints and all(isinstance(i, int) for i in ints) and gid in ctr \
                        and ctr[gid] <= max(ints):
                    self.flag('C04', 'internal_ids_unique', {'store': b, 'symptom': 'counter_behind',
                                                             'op': self._cur_op},
                              'disjoint store graph %s: next internal id %r not beyond largest in use %r' %
                              (gid, ctr[gid], max(ints)))
                    self.flag('C20', 'no_internal_id_twice', {'store': b, 'symptom': 'counter_behind',
                                                              'op': self._cur_op, 'sequential': True},
                              'disjoint store graph %s: next internal id %r not beyond largest in use %r' %
                              (gid, ctr[gid], max(ints)))
        for k in nodes:
            if len(nodes[k]) > 1:
                nodes[k] = msort(nodes[k])
        return {'nodes': nodes, 'edges': edges}

    @staticmethod
    def project(state, gid):
        pre = gid + '|'
        n = {k: v for k, v in state['nodes'].items() if k.startswith(pre)}
        e = {k: v for k, v in state['edges'].items() if all(x.startswith(pre) for x in k.split('~'))}
        return n, e

    @staticmethod
    def graph_ids(state):
        return sorted(set(k.split('|', 1)[0] for k in state['nodes']))

    def observe_plan(self, s):
        """reads about OTHER graphs, aimed at the ids and classes this step mentions (public API only)"""
        op = s['op']
        if op in READ_OPS or op in QUERY_OPS or op in ('crash_enum',):
            return []
        addressed = {s.get('g'), s.get('new'), s.get('h')}
        others = [g for g in sorted(set(k[0] for k in self.model.nodes)) if g not in addressed][:2]
        if not others:
            return []
        pairs = []
        if s.get('n') is not None and s.get('label'):
            pairs.append((s['n'], s['label']))
        for _, p in (s.get('desc') or {}).get('nodes', [])[:3]:
            if p.get(NODE_ID) and p.get(CLASS):
                pairs.append((p[NODE_ID], p[CLASS]))
        if s.get('n') is not None and not s.get('label'):
            pairs.append((s['n'], 'NetworkNode'))
        return [(h, pairs[:3]) for h in others]

    def observe(self, plan):
        out = {}
        for h, pairs in plan:
            for b in BACKENDS:
                pg = self.pg(b, h)
                try:
                    out[(b, h, 'list_all_node_ids')] = sorted(pg.list_all_node_ids())
                except Exception as e:
                    out[(b, h, 'list_all_node_ids')] = 'exc:' + type(e).__name__
                for nid, label in pairs:
                    try:
                        out[(b, h, 'node_exists', nid, label)] = pg.node_exists(node_id=nid, label=label)
                    except Exception as e:
                        out[(b, h, 'node_exists', nid, label)] = 'exc:' + type(e).__name__
                    try:
                        out[(b, h, 'get_node_properties', nid)] = canon(norm(pg.get_node_properties(node_id=nid)))
                    except Exception as e:
                        out[(b, h, 'get_node_properties', nid)] = 'exc:' + type(e).__name__
        return out

    def diff_detail(self, a, b, na='real', nb='expected'):
        out = []
        for part in ('nodes', 'edges'):
            ka, kb = set(a[part]), set(b[part])
            for k in sorted(ka - kb):
                out.append('%s only in %s: %s = %s' % (part, na, k, canon(a[part][k])[:200]))
            for k in sorted(kb - ka):
                out.append('%s only in %s: %s = %s' % (part, nb, k, canon(b[part][k])[:200]))
            for k in sorted(ka & kb):
                if canon(a[part][k]) != canon(b[part][k]):
                    out.append('%s differ at %s: %s=%s %s=%s' % (part, k, na, canon(a[part][k])[:200], nb,
                                                                 canon(b[part][k])[:200]))
        return '; '.join(out[:6])

    def exec_step(self, s):
        op = s['op']
        self._cur_op = op
        self._cur_cond = s.get('kind') or ''
        self._cur_target = ''
        self._cur_direct = ''
        fn = getattr(self, 'do_' + op, None)
        if fn is None:
            if op in QUERY_OPS:
                fn = lambda st: queries.do_query(self, st)
            else:
                raise HarnessError('unknown op %s' % op)
        pre = {b: self.real_state(b) for b in BACKENDS}
        self.pending = []    # state read may flag; those belong to the previous step and were raised there
        probes = self.observe_plan(s)
        obs_pre = self.observe(probes)
        targets, outcome = fn(s)
        post = {b: self.real_state(b) for b in BACKENDS}
        if probes:
            obs_post = self.observe(probes)
            for k in sorted(obs_pre):
                if k[1] in targets:
                    continue
                if obs_pre[k] != obs_post.get(k):
                    self.flag('C04', 'observable_other_graphs', {'store': k[0], 'op': op, 'read': k[2]},
                              'op %s on %s changed what the API reports about graph %s in the %s store: %s%s was %s, is %s' %
                              (op, s.get('g'), k[1], k[0], k[2], list(k[3:]), obs_pre[k], obs_post.get(k)))
                    break
        mstate = self.model.abstract()
        # ---- C04: frame condition on every graph the operation did not address
        if True:
            for b in BACKENDS:
                for gid in sorted(set(self.graph_ids(pre[b])) | set(self.graph_ids(post[b]))):
                    if gid in targets:
                        continue
                    if canon(self.project(pre[b], gid)) != canon(self.project(post[b], gid)):
                        pn, pe = self.project(pre[b], gid)
                        qn, qe = self.project(post[b], gid)
                        self.flag('C04', 'frame_other_graphs', {'store': b, 'op': op, 'cond': self._cur_cond,
                                                                'target': self._cur_target},
                                  'op %s on %s changed graph %s in the %s store: %s' %
                                  (op, sorted(targets), gid, b,
                                   self.diff_detail({'nodes': qn, 'edges': qe}, {'nodes': pn, 'edges': pe},
                                                    'after', 'before')))
        # ---- C05: state three ways
        mintra = {'nodes': mstate['nodes'],
                  'edges': {k: v for k, v in mstate['edges'].items()
                            if len(set(x.split('|', 1)[0] for x in k.split('~'))) == 1}}
        for b in BACKENDS:
            want = mstate if b == 'shared' else mintra
            if canon(post[b]) != canon(want):
                dup = [k for k, v in post[b]['nodes'].items() if len(v) > 1]
                if dup:
                    self.flag('C05', 'node_id_unique_any_class', {'store': b, 'op': op},
                              'node id stored twice in one graph: %s' % dup[:3])
                else:
                    self.flag('C05', 'state_3way', {'store': b, 'op': op, 'cond': self._cur_cond,
                                                    'target': self._cur_target, 'direct': self._cur_direct},
                              'after %s the %s store differs from the reference model: %s' %
                              (op, b, self.diff_detail(post[b], mstate)))
        sh = h8(canon(mstate))
        self.state_hashes.add(sh)
        self.log.add(self.cur_step, s.get('actor'), op, s.get('g'), outcome, sh)
        self.stats.inc('ops.%s.%s' % (op, outcome if isinstance(outcome, str) else 'ok'))
        self.end_step()

    # 3-way execution of a plain interface call
    def three_way(self, s, real_fn, model_fn, mutating, value_oracle='value_3way', compare_values=True):
        op = s['op']
        try:
            mv = ('ok', norm(model_fn()))
        except ModelExc as e:
            mv = ('exc', e.kind)
        outs = {}
        for b in BACKENDS:
            outs[b] = self.real_call(b, real_fn)
        self._last_outs, self._last_model_out = outs, mv
        for b in BACKENDS:
            exp = mv
            if outs[b][0] != exp[0] or (outs[b][0] == 'exc' and outs[b][1] != exp[1]):
                oracle = 'outcome_3way'
                if op in ('unset_node_property',) and s.get('name') in ('GraphID', 'NodeID', 'Class', 'Type', 'Name') \
                        and outs[b][0] == 'ok':
                    oracle = 'identity_unset_rejected'
                if op in ('update_node_property', 'update_nodes_property', 'update_node_properties') and \
                        (s.get('name') == 'Class' or 'Class' in (s.get('props') or {})) and outs[b][0] == 'ok':
                    oracle = 'class_change_rejected'
                self.flag('C05', oracle, {'store': b, 'op': op, 'got': outs[b][1] if outs[b][0] == 'exc' else 'ok',
                                          'want': exp[1] if exp[0] == 'exc' else 'ok', 'cond': self._cur_cond,
                                          'target': self._cur_target},
                          '%s on %s store: got %s, reference model says %s; step=%s' %
                          (op, b, outs[b], exp, canon(s)[:600]))
            elif compare_values and outs[b][0] == 'ok' and canon(outs[b][1]) != canon(exp[1]):
                self.flag('C05', value_oracle, {'store': b, 'op': op},
                          '%s on %s store returned %s, reference model %s' %
                          (op, b, canon(outs[b][1])[:300], canon(exp[1])[:300]))
        if mutating and mv[0] == 'ok':
            self.mutations += 1
        if mv[0] == 'exc':
            self.stats.inc('faults.rejected_call.%s' % op)
        return mv[1] if mv[0] == 'exc' else 'ok'

    # ---- structure
    def arg(self, b, what, d):
        """a fresh copy of a dict argument handed to the library; after the call it must be what it was (the caller's
        dictionary is the caller's: C05, results and effects are those of the documented interface)"""
        if d is None:
            return None
        c = dict(d)
        self._args.append((b, what, c, dict(d)))
        return c

    def check_args(self, op):
        for b, what, given, orig in self._args:
            if canon(given) != canon(orig) or list(given) != list(orig):
                self.flag('C05', 'argument_untouched', {'store': b, 'op': op, 'arg': what},
                          '%s changed the %s dictionary it was given: was %s, is %s' %
                          (op, what, canon(orig)[:200], canon(given)[:200]))
        self._args = []

    def do_add_node(self, s):
        g, n = s['g'], s['n']
        self.touch(g)
        o = self.three_way(s, lambda b: self.pg(b, g).add_node(node_id=n, label=s['label'],
                                                                 props=self.arg(b, 'props', s['props'])),
                           lambda: self.model.add_node(g, n, s['label'], s['props']), True)
        self.check_args('add_node')
        return {g}, o

    def do_delete_node(self, s):
        g = s['g']
        self.touch(g)
        o = self.three_way(s, lambda b: self.pg(b, g).delete_node(node_id=s['n']),
                           lambda: self.model.delete_node(g, s['n']), True)
        return {g}, o

    def do_add_link(self, s):
        g = s['g']
        self.touch(g)
        o = self.three_way(s, lambda b: self.pg(b, g).add_link(node_a=s['a'], rel=s['rel'], node_b=s['b'],
                                                                 props=self.arg(b, 'props', s['props'])),
                           lambda: self.model.add_link(g, s['a'], s['rel'], s['b'], s['props']), True)
        self.check_args('add_link')
        return {g}, o

    def do_update_node_property(self, s):
        g = s['g']
        self.touch(g)
        o = self.three_way(s, lambda b: self.pg(b, g).update_node_property(node_id=s['n'], prop_name=s['name'],
                                                                             prop_val=s['val']),
                           lambda: self.model.update_node_property(g, s['n'], s['name'], s['val']), True)
        return {g}, o

    def do_update_node_properties(self, s):
        g = s['g']
        self.touch(g)
        od = lambda: {k: s['props'][k] for k in (s.get('order') or sorted(s['props'])) if k in s['props']}
        o = self.three_way(s, lambda b: self.pg(b, g).update_node_properties(node_id=s['n'],
                                                                               props=self.arg(b, 'props', od())),
                           lambda: self.model.update_node_properties(g, s['n'], s['props']), True)
        self.check_args('update_node_properties')
        return {g}, o

    def do_unset_node_property(self, s):
        g = s['g']
        self.touch(g)
        o = self.three_way(s, lambda b: self.pg(b, g).unset_node_property(node_id=s['n'], prop_name=s['name']),
                           lambda: self.model.unset_node_property(g, s['n'], s['name']), True)
        return {g}, o

    def do_update_nodes_property(self, s):
        g = s['g']
        self.touch(g)
        o = self.three_way(s, lambda b: self.pg(b, g).update_nodes_property(prop_name=s['name'], prop_val=s['val']),
                           lambda: self.model.update_nodes_property(g, s['name'], s['val']), True)
        return {g}, o

    def do_update_link_property(self, s):
        g = s['g']
        self.touch(g)
        o = self.three_way(s, lambda b: self.pg(b, g).update_link_property(node_a=s['a'], node_b=s['b'], kind=s['kind'],
                                                                             prop_name=s['name'], prop_val=s['val']),
                           lambda: self.model.update_link_property(g, s['a'], s['b'], s['kind'], s['name'], s['val']),
                           True)
        return {g}, o

    def do_unset_link_property(self, s):
        g = s['g']
        self.touch(g)
        o = self.three_way(s, lambda b: self.pg(b, g).unset_link_property(node_a=s['a'], node_b=s['b'], kind=s['kind'],
                                                                            prop_name=s['name']),
                           lambda: self.model.unset_link_property(g, s['a'], s['b'], s['kind'], s['name']), True)
        return {g}, o

    def do_update_link_properties(self, s):
        g = s['g']
        self.touch(g)
        od = lambda: {k: s['props'][k] for k in (s.get('order') or sorted(s['props'])) if k in s['props']}
        o = self.three_way(s, lambda b: self.pg(b, g).update_link_properties(node_a=s['a'], node_b=s['b'],
                                                                               kind=s['kind'],
                                                                               props=self.arg(b, 'props', od())),
                           lambda: self.model.update_link_properties(g, s['a'], s['b'], s['kind'], s['props']), True)
        self.check_args('update_link_properties')
        return {g}, o

    # ---- reads
    def _read(self, s, real_fn, model_fn):
        self.touch(s['g'])
        o = self.three_way(s, real_fn, model_fn, False)
        return set(), o

    def do_get_node_properties(self, s):
        g = s['g']
        return self._read(s, lambda b: self.pg(b, g).get_node_properties(node_id=s['n']),
                          lambda: self.model.get_node_properties(g, s['n']))

    def do_get_link_properties(self, s):
        g = s['g']
        return self._read(s, lambda b: self.pg(b, g).get_link_properties(node_a=s['a'], node_b=s['b']),
                          lambda: self.model.get_link_properties(g, s['a'], s['b']))

    def do_get_node_json_property_as_object(self, s):
        g = s['g']
        v = self.model.nodes.get((g, s['n']), {}).get(s['name'])
        if v is not None and not isinstance(v, str):
            raise SkipStep()
        return self._read(s, lambda b: self.pg(b, g).get_node_json_property_as_object(node_id=s['n'],
                                                                                        prop_name=s['name']),
                          lambda: self.model.get_node_json_property_as_object(g, s['n'], s['name']))

    def do_list_all_node_ids(self, s):
        g = s['g']
        return self._read(s, lambda b: msort(self.pg(b, g).list_all_node_ids()),
                          lambda: msort(self.model.list_all_node_ids(g)))

    def do_get_all_nodes_by_class(self, s):
        g = s['g']
        return self._read(s, lambda b: msort(self.pg(b, g).get_all_nodes_by_class(label=s['label'])),
                          lambda: msort(self.model.get_all_nodes_by_class(g, s['label'])))

    def do_get_all_nodes_by_class_and_type(self, s):
        g = s['g']
        return self._read(s, lambda b: msort(self.pg(b, g).get_all_nodes_by_class_and_type(label=s['label'],
                                                                                             ntype=s['ntype'])),
                          lambda: msort(self.model.get_all_nodes_by_class_and_type(g, s['label'], s['ntype'])))

    def do_node_exists(self, s):
        g = s['g']
        return self._read(s, lambda b: self.pg(b, g).node_exists(node_id=s['n'], label=s['label']),
                          lambda: self.model.node_exists(g, s['n'], s['label']))

    def do_check_node_unique(self, s):
        g = s['g']
        return self._read(s, lambda b: self.pg(b, g).check_node_unique(label=s['label'], name=s['name']),
                          lambda: self.model.check_node_unique(g, s['label'], s['name']))

    def do_delete_all_graphs(self, s):
        gs = sorted(set(k[0] for k in self.model.nodes))
        for g in gs:
            self.touch(g)

        def model():
            for g in gs:
                self.model.delete_graph(g)
        o = self.three_way(s, lambda b: self.imp[b].delete_all_graphs(), model, True)
        return set(gs), o

    def do_new_importer(self, s):
        """another session opens its own importer on the same store (with or without a logger): everything stored
        stays as it is; the new importer may replace the one this world keeps using"""
        import logging
        from fim.graph.networkx_property_graph import NetworkXGraphImporter
        from fim.graph.networkx_property_graph_disjoint import NetworkXGraphImporterDisjoint
        lg = logging.getLogger('simfim-session') if s.get('logger') else None
        for b, cls in (('shared', NetworkXGraphImporter), ('disjoint', NetworkXGraphImporterDisjoint)):
            try:
                imp2 = cls(logger=lg)
            except Exception as e:
                self.flag('C04', 'frame_other_graphs', {'store': b, 'op': 'new_importer', 'symptom': 'raised'},
                          'opening another importer on the %s store raised %r' % (b, e))
                continue
            if s.get('adopt'):
                self.imp[b] = imp2
        return set(), 'ok'

    def do_graph_exists(self, s):
        g = s['g']
        return self._read(s, lambda b: self.pg(b, g).graph_exists(), lambda: self.model.graph_exists(g))

    def do_get_stitch_nodes(self, s):
        g = s['g']
        return self._read(s, lambda b: msort(self.pg(b, g).get_stitch_nodes()),
                          lambda: msort(self.model.get_stitch_nodes(g)))

    def do_validate_graph(self, s):
        g = s['g']
        from .pgmodel import JSON_PROPERTY_NAMES as JN
        for k in self.model.gnodes(g):
            if any(n in self.model.nodes[k] and not isinstance(self.model.nodes[k][n], str) for n in JN):
                raise SkipStep()      # a list left by a 'combine' merge under a JSON-typed name: outside the domain
        return self._read(s, lambda b: self.pg(b, g).validate_graph(), lambda: self.model.validate_graph(g))

    def do_cast_graph(self, s):
        g = s['g']

        def real(b):
            pg = self.imp[b].cast_graph(graph_id=g)
            return pg.graph_id

        def model():
            if not self.model.gnodes(g):
                raise ModelExc(AE)
            return g
        return self._read(s, real, model)

    def do_find_matching_nodes(self, s):
        g, h = s['g'], s['h']
        if not self.model.gnodes(g) or not self.model.gnodes(h):
            raise SkipStep()
        self.touch(h)
        return self._read(s, lambda b: msort(self.pg(b, g).find_matching_nodes(other_graph=self.pg(b, h))),
                          lambda: msort(self.model.find_matching_nodes(g, h)))

    # ---- cross graph
    def do_merge_nodes(self, s):
        g, h, n = s['g'], s['h'], s['n']
        m = self.model
        if not m.gnodes(g) or not m.gnodes(h):
            raise SkipStep()
        pol = s['policy']
        own, oth = m.nodes.get((g, n)), m.nodes.get((h, n))
        if pol and own is not None and oth is not None:
            for k, p in pol.items():
                if p != 'discard' and k in own and k not in oth:
                    raise SkipStep()
        # precondition (see DESIGN): the two nodes have no common neighbour
        if own is not None and oth is not None:
            na = set(x for x, _ in m.neighbors((g, n)))
            nb = set(x for x, _ in m.neighbors((h, n)))
            if na & nb or (g, n) in nb or (h, n) in na or ((g, n) in na and (h, n) in nb):
                raise SkipStep()
        self.touch(g)
        self.touch(h)
        pre_edges = None
        if own is not None and oth is not None:
            pre_edges = set(x for x, _ in m.neighbors((g, n))) | \
                set((g, n) if x == (h, n) else x for x, _ in m.neighbors((h, n)))
        try:
            mexp = None
            mm = m.copy()
            mm.merge_nodes(g, h, n, pol)
            mexp = ('ok', None)
        except ModelExc as e:
            mexp = ('exc', e.kind)
        out_s = self.real_call('shared', lambda b: self.pg(b, g).merge_nodes(n, self.pg(b, h),
                                                                              dict(pol) if pol is not None else None))
        out_d = self.real_call('disjoint', lambda b: self.pg(b, g).merge_nodes(n, self.pg(b, h),
                                                                                dict(pol) if pol is not None else None))
        if out_d != ('exc', 'other:RuntimeError'):
            self.flag('C05', 'outcome_3way', {'store': 'disjoint', 'op': 'merge_nodes', 'got': str(out_d[1]),
                                              'want': 'RuntimeError'},
                      'disjoint merge_nodes is documented as unsupported (RuntimeError); got %s' % (out_d,))
        if out_s[0] != mexp[0] or (out_s[0] == 'exc' and out_s[1] != mexp[1]):
            self.flag('C05', 'outcome_3way', {'store': 'shared', 'op': 'merge_nodes',
                                              'got': out_s[1] if out_s[0] == 'exc' else 'ok',
                                              'want': mexp[1] if mexp[0] == 'exc' else 'ok'},
                      'merge_nodes on shared store: got %s, reference %s; step=%s' % (out_s, mexp, canon(s)[:500]))
        if mexp[0] == 'ok' and out_s[0] == 'ok':
            # the disjoint store does not merge: bring model and disjoint store back in step by applying the
            # merge to the shared store + model only, then re-synchronising the disjoint store from the model
            m.merge_nodes(g, h, n, pol)
            self.mutations += 1
            st = self.real_state('shared')
            got_nb = set()
            key = '%s|%s' % (g, n)
            for ek in st['edges']:
                parts = ek.split('~')
                if key in parts:
                    others = [p for p in parts if p != key] or [key]
                    got_nb.update(tuple(p.split('|', 1)) for p in others)
            if pre_edges is not None and got_nb != pre_edges:
                self.flag('C05', 'merge_keeps_edges', {'store': 'shared'},
                          'after merge node %s has neighbours %s, expected %s' % (n, sorted(got_nb), sorted(pre_edges)))
            want = m.nodes[(g, n)]
            got = (st['nodes'].get(key) or [None])[0]
            if got is not None and canon(got) != canon(want):
                self.flag('C05', 'merge_property_policy', {'store': 'shared'},
                          'merged node properties %s, policy %s demands %s' % (canon(got)[:300], pol, canon(want)[:300]))
            self.resync_disjoint()
            return {g, h}, 'ok'
        return {g, h}, mexp[1] if mexp[0] == 'exc' else 'ok'

    def resync_disjoint(self):
        """after a (shared-only) merge: rebuild the disjoint store's graphs g/h from the model (intra-graph part)"""
        import networkx as nx
        inst = self.imp['disjoint'].storage.storage_instance
        # cross-graph edges cannot exist in the disjoint store; the disjoint store is compared with the
        # intra-graph part of the model only (see exec_step)
        gids = sorted(set(k[0] for k in self.model.nodes) | set(inst.graphs.keys()))
        for gid in gids:
            G = nx.Graph()
            idx = {}
            for i, k in enumerate(sorted(self.model.gnodes(gid)), start=1):
                idx[k] = i
                G.add_node(i, **self.model.nodes[k])
            for ek, p in self.model.edges.items():
                if all(x[0] == gid for x in ek):
                    ks = list(ek)
                    G.add_edge(idx[ks[0]], idx[ks[-1]], **p)
            inst.graphs[gid] = G
            inst.graph_node_ids[gid] = len(G.nodes) + 1

    def do_clone_graph(self, s):
        g, new = s['g'], s['new']
        if not self.model.gnodes(g):
            raise SkipStep()
        if 'disjoint_existing_id' in self.avoid and new in self.disjoint_nonempty():
            raise SkipStep()
        self.touch(g)
        self.touch(new)
        self._cur_target = 'existing' if self.model.gnodes(new) else 'fresh'

        def real(b):
            c = self.pg(b, g).clone_graph(new_graph_id=new)
            return c.graph_id
        o = self.three_way(s, real, lambda: (self.model.clone_graph(g, new), new)[1], True)
        # clone_equal: immediately after cloning the clone equals the source under the new id
        for b in BACKENDS:
            st = self.real_state(b)
            src = self.rename_proj(self.project(st, g), g, new, intra_only=True)
            dst = self.project(st, new)
            if canon(src) != canon(dst):
                self.flag('C04', 'clone_equal', {'store': b, 'target': self._cur_target}, 'clone of %s as %s differs from its source in the %s store'
                          % (g, new, b))
        return {new}, o

    def rename_proj(self, proj, old, new, intra_only=False):
        n, e = proj
        n2 = {}
        for k, v in n.items():
            vv = []
            for d in v:
                d = dict(d)
                d[GRAPH_ID] = new
                vv.append(d)
            n2[new + '|' + k.split('|', 1)[1]] = vv
        e2 = {}
        for k, v in e.items():
            parts = k.split('~')
            if intra_only and not all(p.startswith(old + '|') for p in parts):
                continue
            e2['~'.join(sorted(new + '|' + p.split('|', 1)[1] for p in parts))] = v
        return n2, e2

    def disjoint_nonempty(self):
        inst = self.imp['disjoint'].storage.storage_instance
        return set(g for g in inst.graphs.keys() if len(inst.graphs[g].nodes) > 0)

    def do_delete_graph(self, s):
        g = s['g']
        self.touch(g)
        if s.get('via') == 'importer':
            real = lambda b: self.imp[b].delete_graph(graph_id=g)
        else:
            real = lambda b: self.pg(b, g).delete_graph()
        o = self.three_way(s, real, lambda: self.model.delete_graph(g), True)
        return {g}, o

    # ---- import
    def build_text(self, desc, fmt):
        import networkx as nx
        G = nx.DiGraph() if desc.get('directed') else nx.Graph()
        for key, p in desc['nodes']:
            G.add_node(key, **p)
        for a, z, p in desc['edges']:
            G.add_edge(a, z, **p)
        if fmt == 'GRAPHML':
            return '\n'.join(nx.generate_graphml(G))
        return json.dumps(nx.readwrite.node_link_data(G))

    def write_file(self, text):
        self.file_counter += 1
        path = os.path.join(self.scratch, 'in%d.txt' % self.file_counter)
        with io.open(path, 'w', encoding='utf-8') as f:
            f.write(text)
        return path

    def import_call(self, b, entry, text, gid):
        imp = self.imp[b]
        if entry == 'from_string':
            pg = imp.import_graph_from_string(graph_string=text, graph_id=gid)
        elif entry == 'from_file':
            pg = imp.import_graph_from_file(graph_file=self.write_file(text), graph_id=gid)
        elif entry == 'from_string_direct':
            pg = imp.import_graph_from_string_direct(graph_string=text)
        else:
            pg = imp.import_graph_from_file_direct(graph_file=self.write_file(text))
        return pg.graph_id if pg is not None else None

    def do_import_text(self, s):
        g, kind, entry, fmt, desc = s['g'], s['kind'], s['entry'], s['fmt'], s['desc']
        direct = entry.endswith('direct')
        if kind == 'malformed':
            text = self.build_text(desc, fmt)[: max(5, len(self.build_text(desc, fmt)) // 2)] + '<<<'
        elif kind == 'enumerated':
            text, desc = self.enumerate_nodes(s, desc)
            if text is None:
                return {g}, 'enumerate_failed'
        else:
            text = self.build_text(desc, fmt)
        if not direct and 'disjoint_existing_id' in self.avoid and g in self.disjoint_nonempty():
            raise SkipStep()
        if not direct and 'disjoint_placeholder' in self.avoid and g in self.disjoint_known_ids:
            raise SkipStep()
        if kind == 'no_node_id' and self.model.gnodes(g):
            raise SkipStep()
        self.touch(g)
        if kind != 'good':
            self.stats.inc('faults.bad_import.%s' % kind)

        def model():
            if kind == 'malformed':
                raise ModelExc(IE)
            return self.model.import_desc(g, desc, direct)
        self._cur_cond = kind + ('/direct' if direct else '/nondirect')
        self._cur_target = 'existing' if self.model.gnodes(g) else 'fresh'
        self._cur_direct = direct
        o = self.three_way(s, lambda b: self.import_call(b, entry, text, g), model, True)
        return {g}, o

    def enumerate_nodes(self, s, desc):
        """ABCGraphImporter.enumerate_graph_nodes / _to_string on a text whose nodes partly lack NodeID (C01)"""
        from fim.graph.abc_property_graph import ABCGraphImporter
        from . import roundtrip as RT
        src = self.write_file(self.build_text(desc, 'GRAPHML'))
        try:
            if s.get('variant') == 'to_file':
                dst = src + '.enum'
                ABCGraphImporter.enumerate_graph_nodes(graph_file=src, new_graph_file=dst)
                with io.open(dst, encoding='utf-8') as f:
                    text = f.read()
            else:
                text = ABCGraphImporter.enumerate_graph_nodes_to_string(graph_file=src)
            nodes, edges, markup = RT.parse_graphml(text)
        except Exception as e:
            self.flag('C01', 'rt_enumerate', {'symptom': 'raised', 'exc': type(e).__name__},
                      'numbering the nodes of a GraphML text raised %s: %s' % (type(e).__name__, str(e)[:200]))
            return None, desc
        if s.get('variant') == 'to_file' and markup:
            self.flag('C01', 'rt_label_markup', {'via': 'enumerate_graph_nodes'}, '; '.join(markup[:2]))
        new_desc = {'nodes': [], 'edges': desc['edges']}
        seen = set()
        for key, p in desc['nodes']:
            got = nodes.get(key)
            if got is None:
                self.flag('C01', 'rt_enumerate', {'symptom': 'node_lost'}, 'node %s is missing after numbering' % key)
                return None, desc
            want = dict(p)
            nid = got.get(NODE_ID)
            if p.get(NODE_ID):
                ok = canon(got) == canon(want)
            else:
                want[NODE_ID] = nid
                ok = isinstance(nid, str) and len(nid) > 0 and canon(got) == canon(want)
            if not ok or nid in seen:
                self.flag('C01', 'rt_enumerate', {'symptom': 'content' if ok else 'properties'},
                          'numbering changed node %s: had %s, now %s' % (key, canon(p)[:200], canon(got)[:200]))
                return None, desc
            seen.add(nid)
            new_desc['nodes'].append([key, want])
        self.stats.inc('probe.enumerate.%s' % s.get('variant'))
        return text, new_desc

    # ---- C01 round trip
    def do_roundtrip(self, s):
        from . import roundtrip
        return roundtrip.do_roundtrip(self, s)

    def finish(self):
        pass


# ------------------------------------------------------------------------------------------------
# C20 part A: crash-point enumeration of one store operation (sequential)
# ------------------------------------------------------------------------------------------------
import copy as _copy
import linecache as _linecache
import sys as _sys

STORE_OPS = ['add_graph', 'add_graph_direct', 'del_graph', 'extract_graph', 'get_graph', 'del_all_graphs',
             'add_blank_node_to_graph']


def _store_files():
    import fim.graph.networkx_property_graph as a
    import fim.graph.networkx_property_graph_disjoint as b
    import fim.graph.networkx_mixin as c
    return {a.__file__, b.__file__, c.__file__}


class _Injected(MemoryError):
    pass


def gen_crash_enum(w, rng, s):
    b = rng.choice(BACKENDS)
    sop = rng.choice(STORE_OPS)
    gids = sorted(set(k[0] for k in w.model.nodes))
    variant = rng.choice(['existing', 'fresh']) if gids else 'fresh'
    g = rng.choice(gids) if (gids and variant == 'existing') else 'G-crash-fresh'
    desc = w.gen_desc(rng, rng.choice(['good', 'good', 'no_node_id']), g)
    s.update(op='crash_enum', b=b, store_op=sop, g=g, variant=variant, desc=desc)
    return s


def do_crash_enum(w, s):
    import networkx as nx
    b, sop, g = s['b'], s['store_op'], s['g']
    inst = w.imp[b].storage.storage_instance
    files = _store_files()
    lock = w.locks[b]

    def snapshot():
        if b == 'shared':
            return (_copy.deepcopy(inst.graphs), inst.start_id)
        return ({k: _copy.deepcopy(v) for k, v in inst.graphs.items()}, dict(inst.graph_node_ids))

    def restore(snap):
        if b == 'shared':
            inst.graphs = _copy.deepcopy(snap[0])
            inst.start_id = snap[1]
        else:
            inst.graphs.clear()
            for k, v in snap[0].items():
                inst.graphs[k] = _copy.deepcopy(v)
            inst.graph_node_ids.clear()
            inst.graph_node_ids.update(snap[1])

    def build():
        G = nx.Graph()
        for key, p in s['desc']['nodes']:
            G.add_node(key, **p)
        for a, z, p in s['desc']['edges']:
            G.add_edge(a, z, **p)
        return G

    def call():
        if sop == 'add_graph':
            return inst.add_graph(g, build())
        if sop == 'add_graph_direct':
            return inst.add_graph_direct(g, build())
        if sop == 'del_graph':
            return inst.del_graph(g)
        if sop == 'extract_graph':
            return inst.extract_graph(g)
        if sop == 'get_graph':
            return inst.get_graph(g)
        if sop == 'del_all_graphs':
            return inst.del_all_graphs()
        return inst.add_blank_node_to_graph(g, Class='NetworkNode', NodeID='crash-probe')

    state = {'n': 0, 'target': None, 'where': None}

    def local(frame, event, arg):
        if event == 'line':
            state['n'] += 1
            if state['n'] == state['target']:
                src = _linecache.getline(frame.f_code.co_filename, frame.f_lineno)
                st = src.strip()
                # not injection sites: the lock calls themselves, and lines whose line event lies outside the
                # protected range by construction of the bytecode (try:/finally:/return inline the finally body)
                if 'lock.release' in src or 'lock.acquire' in src or st in ('try:', 'finally:') or \
                        st.startswith('return'):
                    state['where'] = None
                    return local
                state['where'] = (os.path.basename(frame.f_code.co_filename), frame.f_code.co_name,
                                  src.strip()[:60])
                raise _Injected('injected at %s:%d' % (frame.f_code.co_filename, frame.f_lineno))
        return local

    def tracer(frame, event, arg):
        if event == 'call' and frame.f_code.co_filename in files:
            return local
        return None

    def traced(target):
        state['n'] = 0
        state['target'] = target
        state['where'] = None
        lock.reset()
        old = _sys.gettrace()
        _sys.settrace(tracer)
        try:
            try:
                call()
                return 'ok'
            except _Injected:
                return 'injected'
            except seams.SimDeadlock:
                return 'deadlock'
            except Exception as e:
                return 'exc:' + type(e).__name__
        finally:
            _sys.settrace(old)

    snap = snapshot()
    w._cur_op = 'crash_enum:' + sop
    traced(None)
    L = state['n']
    natural_errors = list(lock.errors)
    natural_held = lock.held
    lock.force_release()
    lock.reset()
    restore(snap)
    fired = 0
    for i in range(1, L + 1):
        res = traced(i)
        if res == 'injected':
            fired += 1
            where = state['where']
            sig = {'store': b, 'op': sop, 'func': where[1], 'line': where[2], 'cond': s['variant']}
            if lock.held:
                w.flag('C20', 'lock_not_held_on_exit', dict(sig, symptom='held_after_exception'),
                       '%s store %s(%s): an exception raised at "%s" (in %s) leaves the store lock held' %
                       (b, sop, s['variant'], where[2], where[1]))
            for err in lock.errors:
                w.flag('C20', 'lock_no_double_release', dict(sig, symptom=err),
                       '%s store %s: exception at "%s" -> %s' % (b, sop, where[2], err))
            if not lock.held and not lock.errors:
                # a following ordinary operation on another graph completes
                lock.reset()
                try:
                    inst.add_blank_node_to_graph('G-after-crash', Class='NetworkNode', NodeID='p')
                except BaseException as e:   # noqa
                    w.flag('C20', 'later_caller_not_blocked', dict(sig, symptom=type(e).__name__),
                           'after an exception in %s a later add_blank_node_to_graph failed: %r' % (sop, e))
        lock.force_release()
        lock.reset()
        restore(snap)
        if w.pending:
            break
    if natural_errors or natural_held:
        w.flag('C20', 'lock_balanced', {'store': b, 'op': sop, 'symptom': 'natural:%s' % (natural_errors or 'held'),
                                        'cond': s['variant']},
               '%s store %s(%s) without any fault: lock errors %s held=%s' % (b, sop, s['variant'], natural_errors,
                                                                             natural_held))
    w.stats.inc('faults.crashpoint.%s' % sop, fired)
    w.stats.inc('probe.crash_enum.line_events', L)
    w.faults_fired += fired
    return set(), 'ok'


W1World.do_crash_enum = lambda self, s: do_crash_enum(self, s)
