"""
W1-T — the threaded store world (C20 part B).  Real threads, parked and released
one at a time by a seeded baton scheduler; pre-emption points are the line
events of the store modules (sys.settrace) and every lock operation; optional
exception injection at a chosen line event of a chosen thread.

A run has two recorded steps: the plan (store flavour, per-thread operation
lists) and the schedule (which thread runs at every pre-emption point, run
length encoded, plus the injected faults).  Replay executes exactly those.
"""
import linecache
import os
import sys
import threading

from .kernel import World, Violation, HarnessError, SkipStep, canon, h8
from . import seams

WALL_GUARD_S = 30.0


class _Abort(BaseException):
    pass


class _Injected(MemoryError):
    pass


CONTESTED = 'G-x'


def store_files():
    import fim.graph.networkx_property_graph as a
    import fim.graph.networkx_property_graph_disjoint as b
    import fim.graph.networkx_mixin as c
    return {a.__file__, b.__file__, c.__file__}


class ThreadLock:
    """scheduler-aware stand-in for the store's threading.Lock"""

    def __init__(self, sched):
        self.sched = sched
        self.owner = None
        self.log = []       # (tid, 'acq'|'rel')
        self.errors = []
        self.contended = 0

    def acquire(self, blocking=True, timeout=-1):
        s = self.sched
        tid = s.me()
        s.point(tid, None, kind='lock')
        while self.owner is not None:
            if self.owner == tid:
                self.errors.append(('acquire_while_held', tid))
            self.contended += 1
            s.block(tid, self)
        self.owner = tid
        self.log.append((tid, 'acq'))
        return True

    def release(self):
        s = self.sched
        tid = s.me()
        if self.owner is None:
            self.errors.append(('double_release', tid))
            raise RuntimeError('release unlocked lock')
        if self.owner != tid:
            self.errors.append(('release_by_other', tid))
        self.owner = None
        self.log.append((tid, 'rel'))
        s.unblock(self)

    # a threading.Lock is also a context manager
    def __enter__(self):
        self.acquire()
        return True

    def __exit__(self, *a):
        self.release()
        return False

    def locked(self):
        return self.owner is not None


class Sched:
    def __init__(self, rng, cfg, recorded=None, faults=None):
        self.rng = rng
        self.cfg = cfg
        self.cv = threading.Condition()
        self.current = None
        self.state = {}          # tid -> 'runnable' | 'blocked' | 'done'
        self.blocked_on = {}
        self.idents = {}
        self.choices = []        # recorded: tid chosen at every decision
        self.recorded = recorded
        self.rec_i = 0
        self.points = {}         # tid -> number of line points seen
        self.switches = 0
        self.deadlock = False
        self.abort = False
        self.integrity = None
        self.replaced = False
        self.faults = faults or []      # list of {'tid':, 'point':}
        self.fired = []
        self.files = store_files()
        self.total_points = 0
        # PCT state
        self.prio = {}
        self.change_points = set()

    def me(self):
        return self.idents[threading.get_ident()]

    # ---- decisions
    def choose(self, cur, runnable):
        """pick the next thread to run among `runnable` (cur may or may not be in it)"""
        if not runnable:
            return None
        if self.recorded is not None:
            nxt = None
            if self.rec_i < len(self.recorded):
                nxt = self.recorded[self.rec_i]
            self.rec_i += 1
            if nxt not in runnable:
                nxt = cur if cur in runnable else min(runnable)
        elif len(runnable) == 1:
            nxt = runnable[0]
        elif self.cfg['scheduler'] == 'pct':
            if self.total_points in self.change_points and cur in self.prio:
                self.prio[cur] = min(self.prio.values()) - 1
            nxt = max(runnable, key=lambda t: self.prio[t])
        else:
            if cur in runnable and self.rng.random() >= self.cfg['p_switch']:
                nxt = cur
            else:
                nxt = self.rng.choice(sorted(runnable))
        self.choices.append(nxt)
        return nxt

    def runnable(self):
        return sorted(t for t, st in self.state.items() if st == 'runnable')

    def handoff(self, cur, nxt):
        """called with cv held by thread cur; gives the baton to nxt and waits to get it back"""
        if nxt == cur:
            return
        self.switches += 1
        self.current = nxt
        self.cv.notify_all()
        self.wait_turn(cur)

    def wait_turn(self, tid):
        while self.current != tid:
            if self.abort:
                raise _Abort()
            self.cv.wait(timeout=1.0)
        if self.abort:
            raise _Abort()

    # ---- pre-emption point
    def point(self, tid, frame, kind='line'):
        with self.cv:
            if self.abort:
                raise _Abort()
            if self.integrity is not None and not self.integrity():
                # the store singleton or its lock was swapped for another object: from here on real locks would be
                # taken behind the scheduler's back; stop the run (the oracle reports the swap)
                self.replaced = True
                self.abort = True
                self.current = 'main'
                self.cv.notify_all()
                raise _Abort()
            self.total_points += 1
            if kind == 'line':
                n = self.points[tid] = self.points.get(tid, 0) + 1
                for f in self.faults:
                    if f['tid'] == tid and f['point'] == n and not f.get('done'):
                        src = linecache.getline(frame.f_code.co_filename, frame.f_lineno).strip()
                        f['done'] = True
                        if 'lock.release' in src or 'lock.acquire' in src or src in ('try:', 'finally:') or \
                                src.startswith('return'):
                            break
                        self.fired.append({'tid': tid, 'point': n, 'func': frame.f_code.co_name, 'line': src[:60]})
                        raise _Injected('injected in %s at "%s"' % (frame.f_code.co_name, src[:60]))
            nxt = self.choose(tid, self.runnable())
            self.handoff(tid, nxt)

    def block(self, tid, lock):
        with self.cv:
            self.state[tid] = 'blocked'
            self.blocked_on[tid] = lock
            run = self.runnable()
            if not run:
                self.deadlock = True
                self.abort = True
                self.current = 'main'
                self.cv.notify_all()
                raise _Abort()
            nxt = self.choose(tid, run)
            self.handoff(tid, nxt)

    def unblock(self, lock):
        with self.cv:
            for t, l in list(self.blocked_on.items()):
                if l is lock:
                    del self.blocked_on[t]
                    self.state[t] = 'runnable'

    def finish(self, tid):
        with self.cv:
            self.state[tid] = 'done'
            run = self.runnable()
            if run:
                nxt = self.choose(tid, run)
                self.current = nxt
            else:
                if any(st == 'blocked' for st in self.state.values()):
                    self.deadlock = True
                    self.abort = True
                self.current = 'main'
            self.cv.notify_all()


def rle(seq):
    out = []
    for x in seq:
        if out and out[-1][0] == x:
            out[-1][1] += 1
        else:
            out.append([x, 1])
    return out


def unrle(r):
    out = []
    for x, n in r:
        out.extend([x] * n)
    return out


class W1TWorld(World):
    name = 'W1-T'

    @classmethod
    def draw_config(cls, rng, prop, tier):
        return {
            'prop': prop,
            'store': rng.choice(['shared', 'disjoint']),
            'threads': rng.choice([2, 2, 3]),
            'ops_per_thread': rng.randint(2, 4),
            'scheduler': rng.choice(['random', 'random', 'pct']),
            'p_switch': rng.choice([0.02, 0.05, 0.15, 0.4]),
            'pct_depth': rng.randint(1, 3),
            'inject': rng.random() < 0.3,
            'contest': rng.random() < 0.3,
            # finer than the property's stated granularity (every source line of the store): also at the entry of
            # every function store code calls, i.e. between the calls one source line makes
            'call_preempt': rng.random() < 0.25,
            # every operation of every thread addresses the one contested graph (then 'delete everything' and a
            # thread opening its own importer are meaningful under the serial-order oracle)
            'pure_contest': rng.random() < 0.12,
            'step_cap': 10,
        }

    def __init__(self, seed, cfg, log, stats, streams):
        self.seed, self.cfg, self.log, self.stats, self.streams = seed, cfg, log, stats, streams
        self.prop = cfg['prop']
        self.state_hashes = set()
        self.plan = None
        self.phase = 0
        self.seam = seams.Seams(streams, stats)
        self.seam.install_uuid()
        self.nontrivial = False
        from fim.graph.networkx_property_graph import NetworkXGraphStorage
        from fim.graph.networkx_property_graph_disjoint import NetworkXGraphStorageDisjoint
        NetworkXGraphStorage.storage_instance = None
        NetworkXGraphStorageDisjoint.storage_instance = None

    def close(self):
        self.seam.uninstall()
        from fim.graph.networkx_property_graph import NetworkXGraphStorage
        from fim.graph.networkx_property_graph_disjoint import NetworkXGraphStorageDisjoint
        NetworkXGraphStorage.storage_instance = None
        NetworkXGraphStorageDisjoint.storage_instance = None

    def is_nontrivial(self):
        return self.nontrivial

    # ---------------------------------------------------------------- generation
    def gen_step(self, rng):
        if self.phase == 0:
            self.phase = 1
            return self.gen_plan(rng)
        if self.phase == 1:
            self.phase = 2
            return {'op': 'run', 'choices': None, 'faults': None}
        return None

    def gen_plan(self, rng):
        cfg = self.cfg
        threads = []
        ctr = 0
        for t in range(cfg['threads']):
            ops = []
            own = 'G-t%d' % t
            has_nodes = []      # node ids currently expected in own graph
            for _ in range(cfg['ops_per_thread']):
                k = rng.random()
                if cfg.get('pure_contest') or (cfg.get('contest') and rng.random() < 0.55):
                    # a graph id all threads import into, add nodes to and delete (judged against the serial orders)
                    ctr += 1
                    if k < 0.45:
                        ids = ['t%d-x%d-%d' % (t, ctr, i) for i in range(rng.randint(1, 3))]
                        ops.append({'op': 'add_graph', 'g': CONTESTED, 'ids': ids,
                                    'edges': [[0, 1]] if len(ids) > 1 and rng.random() < 0.5 else [],
                                    'via': rng.choice(['storage', 'storage', 'importer'])})
                    elif k < 0.85:
                        ops.append({'op': 'add_node', 'g': CONTESTED, 'n': 't%d-xn%d' % (t, ctr), 'props': False})
                    elif k < 0.93:
                        ops.append({'op': 'del_graph', 'g': CONTESTED})
                        if cfg.get('pure_contest'):
                            r2 = rng.random()
                            if r2 < 0.4:
                                ops[-1] = {'op': 'del_all', 'g': CONTESTED}
                            elif r2 < 0.7:
                                ops[-1] = {'op': 'new_importer', 'g': CONTESTED}
                    else:
                        ids = ['t%d-xd%d-%d' % (t, ctr, i) for i in range(rng.randint(1, 2))]
                        ops.append({'op': 'add_graph_direct', 'g': CONTESTED, 'ids': ids, 'edges': []})
                    continue
                if k < 0.3 and not has_nodes:
                    n = rng.randint(1, 4)
                    ids = []
                    for i in range(n):
                        ctr += 1
                        ids.append('t%d-i%d' % (t, ctr))
                    edges = [[i, i + 1] for i in range(n - 1) if rng.random() < 0.7]
                    ops.append({'op': 'add_graph', 'g': own, 'ids': ids, 'edges': edges,
                                'via': rng.choice(['storage', 'storage', 'importer'])})
                    has_nodes = list(ids)
                elif k < 0.65:
                    ctr += 1
                    g = own if rng.random() < 0.5 else 'G-common'
                    nid = 't%d-n%d' % (t, ctr)
                    ops.append({'op': 'add_node', 'g': g, 'n': nid, 'props': rng.random() < 0.5})
                    if g == own:
                        has_nodes.append(nid)
                elif k < 0.75 and len(has_nodes) >= 2:
                    a, b = rng.sample(has_nodes, 2)
                    ops.append({'op': 'add_link', 'g': own, 'a': a, 'b': b})
                elif k < 0.80 and has_nodes:
                    ops.append({'op': 'del_graph', 'g': own})
                    has_nodes = []
                elif k < 0.85:
                    # replace the own graph through the direct entry point (both stores replace there)
                    n = rng.randint(1, 3)
                    ids = []
                    for i in range(n):
                        ctr += 1
                        ids.append('t%d-d%d' % (t, ctr))
                    ops.append({'op': 'add_graph_direct', 'g': own, 'ids': ids, 'edges': [[0, 1]] if n > 1 else []})
                    has_nodes = list(ids)
                elif k < 0.89 and has_nodes:
                    ctr += 1
                    ops.append({'op': 'clone', 'g': own, 'new': 'G-t%d-c%d' % (t, ctr), 'nodes': list(has_nodes)})
                elif k < 0.93:
                    ops.append({'op': 'extract', 'g': rng.choice([own, 'G-common', 'G-t0'])})
                else:
                    ctr += 1
                    ops.append({'op': 'add_node', 'g': 'G-common', 'n': 't%d-n%d' % (t, ctr), 'props': False})
            threads.append(ops)
        return {'op': 'plan', 'store': cfg['store'], 'threads': threads}

    @staticmethod
    def simplify_step(step):
        if step['op'] == 'plan':
            for t in range(len(step['threads'])):
                for i in range(len(step['threads'][t])):
                    s2 = dict(step)
                    s2['threads'] = [list(x) for x in step['threads']]
                    del s2['threads'][t][i]
                    yield s2
        elif step['op'] == 'run' and step.get('choices'):
            ch = step['choices']
            # fewer context switches: merge a segment into its predecessor
            for i in range(1, len(ch)):
                c2 = [list(x) for x in ch]
                c2[i - 1][1] += c2[i][1]
                del c2[i]
                yield dict(step, choices=c2)
            if step.get('faults'):
                for i in range(len(step['faults'])):
                    f2 = list(step['faults'])
                    del f2[i]
                    yield dict(step, faults=f2)

    # ---------------------------------------------------------------- execution
    def flag(self, oracle, sig, detail):
        raise Violation('C20', oracle, dict(sig, store=self.plan['store']), detail)

    def exec_step(self, step):
        if step['op'] == 'plan':
            self.plan = step
            self.log.add('plan', step['store'], step['threads'])
            return
        if self.plan is None:
            raise SkipStep()
        self.run_threads(step)

    def run_threads(self, step):
        import networkx as nx
        plan = self.plan
        store = plan['store']
        if store == 'shared':
            from fim.graph.networkx_property_graph import NetworkXGraphImporter
            imp = NetworkXGraphImporter()
        else:
            from fim.graph.networkx_property_graph_disjoint import NetworkXGraphImporterDisjoint
            imp = NetworkXGraphImporterDisjoint()
        inst = imp.storage.storage_instance
        rng = self.streams.get('schedule')
        recorded = unrle(step['choices']) if step.get('choices') is not None else None
        nthreads = len(plan['threads'])
        if step.get('faults') is not None:
            faults = [dict(f) for f in step['faults']]
        elif self.cfg.get('inject'):
            frng = self.streams.get('faults')
            faults = [{'tid': frng.randrange(nthreads), 'point': frng.randint(1, 40)}
                      for _ in range(frng.randint(1, 2))]
        else:
            faults = []
        sched = Sched(rng, self.cfg, recorded=recorded, faults=faults)
        if self.cfg['scheduler'] == 'pct' and recorded is None:
            order = list(range(nthreads))
            rng.shuffle(order)
            sched.prio = {t: p for p, t in enumerate(order)}
            sched.change_points = set(rng.randint(1, 120) for _ in range(self.cfg['pct_depth']))
        lock = ThreadLock(sched)
        inst.lock = lock
        sched.replaced = False
        sched.integrity = lambda: type(imp.storage).storage_instance is inst and inst.lock is lock
        files = sched.files
        results = {t: [] for t in range(nthreads)}
        crashed_graphs = set()

        def do_op(tid, op):
            g = op['g']
            if op['op'] == 'add_graph':
                G = nx.Graph()
                for i, nid in enumerate(op['ids']):
                    G.add_node('n%d' % i, NodeID=nid, Class='NetworkNode', Name=nid)
                for a, b in op['edges']:
                    G.add_edge('n%d' % a, 'n%d' % b, Class='has')
                if op['via'] == 'importer':
                    text = '\n'.join(nx.generate_graphml(G))
                    imp.import_graph_from_string(graph_string=text, graph_id=g)
                else:
                    inst.add_graph(g, G)
            elif op['op'] == 'add_graph_direct':
                G = nx.Graph()
                for i, nid in enumerate(op['ids']):
                    G.add_node('n%d' % i, NodeID=nid, Class='NetworkNode', Name=nid, GraphID=g)
                for a, b in op['edges']:
                    G.add_edge('n%d' % a, 'n%d' % b, Class='has')
                inst.add_graph_direct(g, G)
            elif op['op'] == 'clone':
                imp.graph_class(graph_id=g, importer=imp).clone_graph(new_graph_id=op['new'])
            elif op['op'] == 'add_node':
                pg = imp.graph_class(graph_id=g, importer=imp)
                pg.add_node(node_id=op['n'], label='NetworkNode', props={'Name': op['n']} if op['props'] else None)
            elif op['op'] == 'add_link':
                pg = imp.graph_class(graph_id=g, importer=imp)
                pg.add_link(node_a=op['a'], rel='has', node_b=op['b'])
            elif op['op'] == 'del_graph':
                inst.del_graph(g)
            elif op['op'] == 'del_all':
                imp.delete_all_graphs()
            elif op['op'] == 'new_importer':
                type(imp)()        # another session opens its own importer on the same store
            elif op['op'] == 'extract':
                inst.extract_graph(g)

        call_preempt = bool(self.cfg.get('call_preempt'))

        def worker(tid):
            sched.idents[threading.get_ident()] = tid

            def local(frame, event, arg):
                if event == 'line':
                    sched.point(tid, frame)
                return local

            def tracer(frame, event, arg):
                if event == 'call':
                    fn = frame.f_code.co_filename
                    if fn in files:
                        return local
                    # entry of a function called directly from store code (a networkx constructor or mutator, a
                    # defaultdict factory, ...): one store source line can contain several such calls, and a
                    # thread may be pre-empted between them
                    b = frame.f_back
                    if call_preempt and b is not None and fn != __file__ and b.f_code.co_filename in files:
                        sched.point(tid, frame, kind='call')
                return None
            try:
                with sched.cv:
                    sched.wait_turn(tid)
                for op in plan['threads'][tid]:
                    sys.settrace(tracer)
                    try:
                        do_op(tid, op)
                        results[tid].append('ok')
                    except _Injected:
                        results[tid].append('injected')
                        crashed_graphs.add(op['g'])
                    except _Abort:
                        raise
                    except Exception as e:
                        results[tid].append('exc:%s:%s' % (type(e).__name__, str(e)[:80]))
                    finally:
                        sys.settrace(None)
            except _Abort:
                results[tid].append('aborted')
                return
            except BaseException as e:   # noqa
                results[tid].append('harness:%r' % (e,))
            finally:
                sys.settrace(None)
            try:
                sched.finish(tid)
            except _Abort:
                pass

        ths = []
        for t in range(nthreads):
            sched.state[t] = 'runnable'
            th = threading.Thread(target=worker, args=(t,), name='simfim-w%d' % t, daemon=True)
            ths.append(th)
        for th in ths:
            th.start()
        # wait until every worker registered its ident
        import time as _time
        t0 = _time.time()
        while len(sched.idents) < nthreads:
            _time.sleep(0.0005)
            if _time.time() - t0 > WALL_GUARD_S:
                raise HarnessError('worker threads did not start')
        with sched.cv:
            first = sched.choose(None, sched.runnable())
            sched.current = first
            sched.cv.notify_all()
            while sched.current != 'main':
                sched.cv.wait(timeout=1.0)
                if _time.time() - t0 > WALL_GUARD_S:
                    sched.abort = True
                    sched.cv.notify_all()
                    if not sched.integrity():
                        break
                    raise HarnessError('threaded run exceeded the wall-clock guard (%ss)' % WALL_GUARD_S)
        for th in ths:
            th.join(timeout=5.0)
        step['choices'] = rle(sched.choices) if recorded is None else step['choices']
        step['faults'] = [{'tid': f['tid'], 'point': f['point']} for f in faults]
        ilv = h8(canon(rle(sched.choices)))
        self.log.add('run', store, rle(sched.choices), sched.fired, results)
        self.state_hashes.add(ilv)
        self.stats.inc('sched.switches', sched.switches)
        self.stats.inc('sched.points', sched.total_points)
        self.stats.inc('sched.lock_contended', lock.contended)
        self.stats.inc('sched.scheduler.%s' % self.cfg['scheduler'])
        for f in sched.fired:
            self.stats.inc('faults.crashpoint.%s' % f['func'])
        if lock.contended:
            self.stats.inc('probe.lock_contended_runs')
        self.nontrivial = sched.switches > 0 and (not self.cfg.get('inject') or bool(sched.fired) or True)

        # ---------------- oracles
        cur = type(imp.storage).storage_instance
        if cur is not inst or getattr(cur, 'lock', None) is not lock:
            raise Violation('C20', 'lock_stays_the_lock', {'store': store, 'symptom': 'store_replaced' if cur is not inst
                                                          else 'lock_replaced'},
                            'after the run the %s is not the object it was before: callers that hold or wait for the '
                            'old lock are no longer excluded from those using the new one' %
                            ('store singleton' if cur is not inst else "store's lock"))
        where = sched.fired[0] if sched.fired else {}
        sigx = {'injected': bool(sched.fired), 'func': where.get('func', ''), 'line': where.get('line', '')}
        if call_preempt:
            sigx['preempt'] = 'call'
        if sched.deadlock:
            holders = lock.owner
            self.flag('no_deadlock', dict(sigx, symptom='deadlock'),
                      'all unfinished threads are blocked on the store lock (owner thread %s, its results %s); '
                      'fired faults %s' % (holders, results.get(holders), sched.fired))
        if lock.owner is not None:
            self.flag('lock_not_held_on_exit', dict(sigx, symptom='held_after_join'),
                      'store lock still held by thread %s after all threads finished; faults %s' %
                      (lock.owner, sched.fired))
        for err, tid in lock.errors:
            self.flag('lock_no_double_release', dict(sigx, symptom=err),
                      'thread %d: %s; faults %s' % (tid, err, sched.fired))
        # per-thread nesting of the lock log
        depth = {}
        for tid, ev in lock.log:
            d = depth.get(tid, 0) + (1 if ev == 'acq' else -1)
            if d < 0 or d > 1:
                self.flag('lock_balanced', dict(sigx, symptom='nesting'), 'lock log not well nested for thread %d' % tid)
            depth[tid] = d
        # what an injected exception makes uncertain: the crashed operation's own effect, nothing else
        uncertain_graphs, optional_nodes = set(), {}
        for tid, ops in enumerate(plan['threads']):
            for i, op in enumerate(ops):
                r = results[tid][i] if i < len(results[tid]) else 'not_run'
                if r in ('injected', 'not_run', 'aborted'):
                    if op['op'] == 'add_node':
                        optional_nodes.setdefault(op['g'], set()).add(op['n'])
                    elif op['op'] == 'clone':
                        uncertain_graphs.add(op['new'])
                    elif op['op'] != 'extract':
                        uncertain_graphs.add(op['g'])
        for tid, rs in results.items():
            for i, r in enumerate(rs):
                if r.startswith('exc:') or r.startswith('harness:'):
                    op = plan['threads'][tid][i] if i < len(plan['threads'][tid]) else {}
                    earlier_crash = any(results[tid][j] == 'injected' and plan['threads'][tid][j]['g'] == op.get('g')
                                        for j in range(min(i, len(results[tid]))))
                    if earlier_crash and not r.startswith('harness:') and 'RuntimeError' not in r:
                        continue    # follows an operation of the same thread on the same graph that was crashed
                    sym = r.split(':')[1] if ':' in r else r
                    if 'during iteration' in r:
                        sym = 'concurrent_iteration'
                    self.flag('op_failed', dict(sigx, symptom=sym, op=op.get('op', '')),
                              'thread %d operation %s failed under this interleaving: %s' % (tid, canon(op), r))
        # expected content: sequential result of each owner's operations; union for the common graph
        exp_nodes, exp_edges = {}, {}
        for tid, ops in enumerate(plan['threads']):
            for i, op in enumerate(ops):
                g = op['g']
                done = i < len(results[tid]) and results[tid][i] == 'ok'
                if not done or g == CONTESTED:
                    continue
                if op['op'] in ('add_graph', 'add_graph_direct'):
                    exp_nodes[g] = set(op['ids'])
                    exp_edges[g] = set(frozenset({op['ids'][a], op['ids'][b]}) for a, b in op['edges'])
                elif op['op'] == 'clone':
                    exp_nodes[op['new']] = set(exp_nodes.get(g, set()))
                    exp_edges[op['new']] = set(exp_edges.get(g, set()))
                    # what an injected crash left uncertain in the source is uncertain in its clone
                    if g in uncertain_graphs:
                        uncertain_graphs.add(op['new'])
                    if optional_nodes.get(g):
                        optional_nodes.setdefault(op['new'], set()).update(optional_nodes[g])
                elif op['op'] == 'add_node':
                    exp_nodes.setdefault(g, set()).add(op['n'])
                elif op['op'] == 'add_link':
                    exp_edges.setdefault(g, set()).add(frozenset({op['a'], op['b']}))
                elif op['op'] == 'del_graph':
                    exp_nodes[g] = set()
                    exp_edges[g] = set()
        exp_props = {}
        for tid, ops in enumerate(plan['threads']):
            for i, op in enumerate(ops):
                if not (i < len(results[tid]) and results[tid][i] == 'ok') or op['g'] == CONTESTED:
                    continue
                if op['op'] in ('add_graph', 'add_graph_direct'):
                    for k2 in [k2 for k2 in exp_props if k2[0] == op['g']]:
                        del exp_props[k2]
                    for nid in op['ids']:
                        exp_props[(op['g'], nid)] = {'GraphID': op['g'], 'NodeID': nid, 'Class': 'NetworkNode', 'Name': nid}
                elif op['op'] == 'clone':
                    for (gg, nid), pp in list(exp_props.items()):
                        if gg == op['g']:
                            exp_props[(op['new'], nid)] = dict(pp, GraphID=op['new'])
                elif op['op'] == 'del_graph':
                    for k2 in [k2 for k2 in exp_props if k2[0] == op['g']]:
                        del exp_props[k2]
                elif op['op'] == 'add_node':
                    d = {'GraphID': op['g'], 'NodeID': op['n'], 'Class': 'NetworkNode'}
                    if op['props']:
                        d['Name'] = op['n']
                    exp_props[(op['g'], op['n'])] = d
        got_props = {}
        got_nodes, got_edges, ints = {}, {}, []
        if store == 'shared':
            G = inst.graphs
            for n, d in G.nodes(data=True):
                got_nodes.setdefault(d.get('GraphID'), []).append(d.get('NodeID'))
                got_props[(d.get('GraphID'), d.get('NodeID'))] = dict(d)
                ints.append(n)
            for a, b in G.edges():
                ga = G.nodes[a].get('GraphID')
                got_edges.setdefault(ga, set()).add(frozenset({G.nodes[a].get('NodeID'), G.nodes[b].get('NodeID')}))
            ctr_ok = (not ints) or getattr(inst, 'start_id', max(ints) + 1) > max(ints)
            if not ctr_ok and not sched.fired:
                self.flag('no_internal_id_twice', dict(sigx, symptom='counter_behind'),
                          'next internal id %s not beyond largest in use %s' % (inst.start_id, max(ints)))
        else:
            for gid, G in inst.graphs.items():
                for n, d in G.nodes(data=True):
                    got_nodes.setdefault(gid, []).append(d.get('NodeID'))
                    got_props[(gid, d.get('NodeID'))] = dict(d)
                    if d.get('GraphID') != gid:
                        self.flag('graph_has_exactly_added', dict(sigx, symptom='wrong_graph_id'),
                                  'node %s filed under %s carries GraphID %s' % (d.get('NodeID'), gid, d.get('GraphID')))
                for a, b in G.edges():
                    got_edges.setdefault(gid, set()).add(frozenset({G.nodes[a].get('NodeID'), G.nodes[b].get('NodeID')}))
                ks = list(G.nodes)
                if ks and gid in inst.graph_node_ids and inst.graph_node_ids[gid] <= max(ks) and \
                        gid not in uncertain_graphs and gid not in optional_nodes:
                    self.flag('no_internal_id_twice', dict(sigx, symptom='counter_behind'),
                              'graph %s: next internal id %s not beyond largest in use %s' %
                              (gid, inst.graph_node_ids[gid], max(ks)))
        # an exception injected into the shared store can leave its ONE id counter behind a node it already stored;
        # the next allocation (by any thread, for any graph) then overwrites that node. What the graphs hold after an
        # injected fault is not what the property speaks of (it demands the lock discipline there), so content is
        # judged on the shared store only in fault-free runs, and per graph on the disjoint store.
        content_judged = not (store == 'shared' and sched.fired)
        if any(op['g'] == CONTESTED for ops in plan['threads'] for op in ops):
            self.check_contested(plan, results, store, got_nodes.get(CONTESTED, []), got_edges.get(CONTESTED, set()),
                                 sigx, sched)
        for g in sorted(set(exp_nodes) | set(got_nodes)):
            if g in uncertain_graphs or not content_judged or g == CONTESTED:
                continue
            opt = optional_nodes.get(g, set())
            want = sorted(exp_nodes.get(g, set()) - opt)
            got = sorted(x for x in got_nodes.get(g, []) if x not in opt)
            if got != want:
                lost = sorted(set(want) - set(got))
                extra = sorted(set(got) - set(want))
                dup = sorted(x for x in set(got) if got.count(x) > 1)
                sym = 'node_lost' if lost else ('duplicate' if dup else 'extra_node')
                self.flag('no_node_lost' if lost else 'graph_has_exactly_added', dict(sigx, symptom=sym),
                          'graph %s: expected nodes %s, found %s (lost %s, extra %s, duplicated %s); schedule %s' %
                          (g, want, got, lost, extra, dup, rle(sched.choices)[:20]))
            for nid in want:
                if nid in got and canon(got_props.get((g, nid))) != canon(exp_props.get((g, nid))) and not sched.fired:
                    self.flag('graph_has_exactly_added', dict(sigx, symptom='node_properties'),
                              'graph %s node %s carries %s, expected %s (properties written to the wrong internal node?); '
                              'schedule %s' % (g, nid, canon(got_props.get((g, nid))), canon(exp_props.get((g, nid))),
                                               rle(sched.choices)[:20]))
            if got_edges.get(g, set()) != exp_edges.get(g, set()):
                self.flag('graph_has_exactly_added', dict(sigx, symptom='edges'),
                          'graph %s: expected edges %s, found %s' %
                          (g, sorted(sorted(e) for e in exp_edges.get(g, set())),
                           sorted(sorted(e) for e in got_edges.get(g, set()))))

    def check_contested(self, plan, results, store, got_nodes, got_edges, sigx, sched):
        """The graph id every thread writes to: its final content must be the outcome of SOME serial order of the
        completed operations that respects each thread's own order (sequential consistency; real-time order would
        only restrict further, so this never blames a correct store). Reference semantics per store flavour:
        add_graph replaces (shared) / is skipped when the id holds nodes (one-graph-per-store, its documented
        behaviour), add_graph_direct replaces, add_node adds, del_graph empties."""
        if sched.fired:
            self.stats.inc('probe.contested.not_judged_after_injection')
            return
        seqs = []
        for tid, ops in enumerate(plan['threads']):
            seq = []
            for i, op in enumerate(ops):
                if op['g'] != CONTESTED or op['op'] == 'extract':
                    continue
                if not (i < len(results[tid]) and results[tid][i] == 'ok'):
                    return      # already reported as op_failed / aborted
                seq.append(op)
            seqs.append(seq)

        def apply(state, op):
            nodes, edges = state
            k = op['op']
            if k in ('add_graph', 'add_graph_direct'):
                if k == 'add_graph' and store == 'disjoint' and nodes:
                    return state
                return (frozenset(op['ids']),
                        frozenset(frozenset({op['ids'][a], op['ids'][b]}) for a, b in op['edges']))
            if k == 'add_node':
                return (nodes | {op['n']}, edges)
            if k in ('del_graph', 'del_all'):
                return (frozenset(), frozenset())
            return state
        finals = set()
        seen = set()
        stack = [(tuple(0 for _ in seqs), (frozenset(), frozenset()))]
        while stack:
            pos, state = stack.pop()
            if (pos, state) in seen:
                continue
            seen.add((pos, state))
            if all(pos[t] == len(seqs[t]) for t in range(len(seqs))):
                finals.add(state)
                continue
            for t in range(len(seqs)):
                if pos[t] < len(seqs[t]):
                    p2 = list(pos)
                    p2[t] += 1
                    stack.append((tuple(p2), apply(state, seqs[t][pos[t]])))
        self.stats.inc('probe.contested.judged')
        self.stats.inc('probe.contested.serial_outcomes', len(finals))
        dup = sorted(x for x in set(got_nodes) if got_nodes.count(x) > 1)
        got = (frozenset(got_nodes), frozenset(got_edges))
        if dup or got not in finals:
            union = set()
            for n, _ in finals:
                union |= n
            lost = sorted(set.intersection(*[set(n) for n, _ in finals]) - set(got_nodes)) if finals else []
            self.flag('no_node_lost' if lost else 'graph_has_exactly_added',
                      dict(sigx, symptom='contested_not_serializable', dup=bool(dup)),
                      'graph %s written by all threads holds nodes %s / edges %s, which no serial order of the completed '
                      'operations produces (%d possible outcomes, e.g. %s); in every serial order it holds %s; '
                      'operations per thread %s; schedule %s' %
                      (CONTESTED, sorted(got_nodes), sorted(sorted(e) for e in got_edges), len(finals),
                       [sorted(n) for n, _ in sorted(finals, key=lambda f: sorted(f[0]))[:3]], lost,
                       canon([[{'op': o['op'], 'ids': o.get('ids'), 'n': o.get('n')} for o in q] for q in seqs])[:600],
                       rle(sched.choices)[:20]))

    def finish(self):
        pass
