"""
C11 as operations of W2: authorization attributes and the accounting summary
collected from the topology object and from its serialized model are compared
with an order-free tally of the abstract state.  "Mirrored port inside the
slice" follows the library's own definition (pinned below).
"""
import json

from .kernel import SkipStep, canon
from .struct import Struct, graph_state, jprop
from .w2_ops import op, top_services, get_service
from . import w2_validate

A = {
    'TYPE': "urn:fabric:xacml:attributes:resource-type", 'CPU': "urn:fabric:xacml:attributes:resource-cpu",
    'RAM': "urn:fabric:xacml:attributes:resource-ram", 'DISK': "urn:fabric:xacml:attributes:resource-disk",
    'BW': "urn:fabric:xacml:attribute:resource-bw", 'SITE': "urn:fabric:xacml:attribute:resource-site",
    'COMPONENT': "urn:fabric:xacml:attribute:resource-component",
    'V4EXT': "urn:fabric:xacml:attribute:resource-fabnetv4-ext-site",
    'V6EXT': "urn:fabric:xacml:attribute:resource-fabnetv6-ext-site",
    'MIRROR': "urn:fabric:xacml:attribute:resource-mirrorsite",
    'FACILITY': "urn:fabric:xacml:attribute:resource-facility-port",
}
SET_ATTRS = ('SITE', 'V4EXT', 'V6EXT', 'MIRROR', 'TYPE')          # de-duplicated by the collector
RESOURCE_CAT = "urn:oasis:names:tc:xacml:3.0:attribute-category:resource"
INT_TYPE = "http://www.w3.org/2001/XMLSchema#integer"
STR_TYPE = "http://www.w3.org/2001/XMLSchema#string"


def caps(props, name='Capacities'):
    return jprop(props, name) if isinstance(jprop(props, name), dict) else None


def in_slice_ports(st):
    """
    the library's definition: local_name labels of the first peer of every connected interface of a slice node.
    A port with several peers makes 'the first' order-dependent; callers skip such states.
    """
    out = set()
    ambiguous = False
    for n in st.of_class('NetworkNode'):
        if st.typ(n) == 'Facility':
            continue
        for cp in st.node_interfaces(n):
            peers = st.peers(cp)
            if len(peers) > 1:
                ambiguous = True
            if peers:
                lab = jprop(st.n[peers[0]], 'Labels')
                if isinstance(lab, dict) and lab.get('local_name') is not None:
                    out.add(lab['local_name'])
    return out, ambiguous


def authz_expected(st):
    exp = {k: [] for k in A}
    nodes = [n for n in st.of_class('NetworkNode') if st.typ(n) != 'Facility']
    exp['TYPE'] = ['switch-p4'] if any(st.typ(n) == 'Switch' for n in nodes) else ['sliver']
    for n in nodes:
        c = caps(st.n[n])
        if 'Capacities' in st.n[n] and jprop(st.n[n], 'Capacities') is not None:
            c = c or {}
            exp['CPU'].append(c.get('core', 0))
            exp['RAM'].append(c.get('ram', 0))
            exp['DISK'].append(c.get('disk', 0))
        if st.n[n].get('Site'):
            exp['SITE'].append(st.n[n]['Site'])
        for comp in st.components_of(n):
            exp['COMPONENT'].append(st.typ(comp))
    ports, ambiguous = in_slice_ports(st)
    for s in st.of_class('NetworkService'):
        p = st.n[s]
        if 'Capacities' in p and jprop(p, 'Capacities') is not None:
            exp['BW'].append((caps(p) or {}).get('bw', 0))
        if p.get('Site'):
            exp['SITE'].append(p['Site'])
        t = st.typ(s)
        site = p.get('Site') or 'UNKNOWN-SITE'
        if t == 'FABNetv4Ext':
            exp['V4EXT'].append(site)
        elif t == 'FABNetv6Ext':
            exp['V6EXT'].append(site)
        elif t == 'PortMirror':
            if p.get('MirrorPort') not in ports:
                exp['MIRROR'].append(site)
    for n in st.of_class('NetworkNode'):
        if st.typ(n) == 'Facility':
            exp['FACILITY'].append(st.name(n))
    out = {}
    for k, v in exp.items():
        if k in SET_ATTRS:
            v = sorted(set(v))
        else:
            v = sorted(v, key=canon)
        if v:
            out[A[k]] = v
    return out, ambiguous


def normalise(attrs):
    out = {}
    inv = {v: k for k, v in A.items()}
    for k, v in attrs.items():
        v = list(v)
        if not v:
            continue
        if inv.get(k) in SET_ATTRS:
            out[k] = sorted(v)           # duplicates in a de-duplicated attribute stay visible
        else:
            out[k] = sorted(v, key=canon)
    return out


def compare_attrs(w, got, want, src, st):
    got = normalise(got)
    if canon(got) == canon(want):
        return True
    inv = {v: k for k, v in A.items()}
    for k in sorted(set(got) | set(want)):
        if canon(got.get(k)) != canon(want.get(k)):
            name = inv.get(k, k)
            g, x = got.get(k) or [], want.get(k) or []
            missing = [v for v in x if v not in g]
            oracle = 'authz_complete' if missing or len(g) < len(x) else 'authz_no_extra'
            w.flag('C11', oracle, {'attr': name, 'source': src},
                   'attribute %s collected from the %s is %s, a direct tally of the slice gives %s' % (name, src, g, x))
            return False
    return False


def unique_names(st):
    for c in ('NetworkNode', 'NetworkService'):
        names = [st.name(x) for x in st.of_class(c)]
        if len(set(names)) != len(names):
            return False
    return True


@op('collect_authz', 'read')
def g_collect_authz(w, rng, st):
    if w.cfg['flavour'] != 'experiment':
        return None
    return {'asm': rng.random() < 0.5}


@op('collect_authz', 'read')
def x_collect_authz(w, s, st, info):
    from fim.authz.attribute_collector import ResourceAuthZAttributes
    info['may_write'] = True
    if st.dups or not unique_names(st) or not st.of_class('NetworkNode'):
        raise SkipStep()
    want, ambiguous = authz_expected(st)
    if ambiguous:
        raise SkipStep()
    r = ResourceAuthZAttributes()
    r.collect_resource_attributes(source=w.topo)
    ok = compare_attrs(w, dict(r.attributes), want, 'topology', st)
    w.stats.inc('probe.authz.topology')
    if want.get(A['MIRROR']) is None and any(st.typ(x) == 'PortMirror' for x in st.of_class('NetworkService')):
        w.stats.inc('probe.authz.mirror_inside_slice_exempted')
    if ok:
        # the PDP request lists exactly the collected attributes, in the right category and with the right type
        req = json.loads(r.transform_to_pdp_request(as_json=True))
        seen = {}
        for cat in req['Request']['Category']:
            for a in cat['Attribute']:
                seen[a['AttributeId']] = (cat['CategoryId'], a['DataType'], a['Value'])
        got = normalise({k: v[2] for k, v in seen.items()})
        if canon(got) != canon(want):
            w.flag('C11', 'pdp_matches_attributes', {'symptom': 'values'},
                   'PDP request attributes %s differ from the collected ones %s' % (canon(got)[:300], canon(want)[:300]))
        for k, (cat, typ, _) in seen.items():
            inv = {v: kk for kk, v in A.items()}
            wt = INT_TYPE if inv.get(k) in ('CPU', 'RAM', 'DISK', 'BW') else STR_TYPE
            if cat != RESOURCE_CAT or typ != wt:
                w.flag('C11', 'pdp_matches_attributes', {'symptom': 'category_or_type', 'attr': inv.get(k, k)},
                       'PDP request files %s under %s with type %s' % (k, cat, typ))
    if not s.get('asm') or w.pending:
        return
    # ---- the same from the serialized model (which validates the slice first and may record inferred sites)
    accept, reason, record = w2_validate.validate_expected(st, 'experiment')
    asm = w.topo.graph_model
    r2 = ResourceAuthZAttributes()
    try:
        r2.collect_resource_attributes(source=asm)
    except Exception as e:
        if accept and type(asm).__name__ == 'NetworkxASM':
            w.flag('C11', 'authz_topo_eq_asm', {'symptom': 'raised', 'exc': type(e).__name__},
                   'collecting from the serialized model of a valid slice raised %s: %s' % (type(e).__name__, str(e)[:200]))
        w.stats.inc('probe.authz.asm_rejected')
        return
    if not accept:
        return
    # expectation over the slice with the sites a validation pass records
    post = {'nodes': {k: [dict(v[0])] for k, v in st.state['nodes'].items()}, 'edges': st.state['edges']}
    for sid, site in record.items():
        post['nodes'][sid][0]['Site'] = site
    want2, amb2 = authz_expected(Struct(post))
    if not amb2:
        compare_attrs(w, dict(r2.attributes), want2, 'serialized model', Struct(post))
        if not w.pending and canon(normalise(dict(r2.attributes))) != canon(want2):
            w.flag('C11', 'authz_topo_eq_asm', {'symptom': 'differs'}, 'topology and serialized model give different attributes')
    w.stats.inc('probe.authz.asm')


def log_expected(st):
    nodes = [n for n in st.of_class('NetworkNode') if st.typ(n) != 'Facility']
    exp = {'vm_count': 0, 'core_count': 0, 'p4_count': 0, 'components': {}, 'services': [], 'facilities': set(),
           'sites': set(), 'nodes': []}
    for n in nodes:
        p = st.n[n]
        if st.typ(n) == 'VM':
            exp['vm_count'] += 1
            c = None
            if jprop(p, 'CapacityAllocations') is not None:
                c = caps(p, 'CapacityAllocations') or {}
            elif jprop(p, 'Capacities') is not None:
                c = caps(p) or {}
            if c is not None:
                exp['core_count'] += c.get('core', 0)
                exp['nodes'].append([c.get('core', 0), c.get('ram', 0), c.get('disk', 0)])
        elif st.typ(n) == 'Switch':
            exp['p4_count'] += 1
        if p.get('Site'):
            exp['sites'].add(p['Site'])
        for comp in st.components_of(n):
            exp['components'][st.typ(comp)] = exp['components'].get(st.typ(comp), 0) + 1
    for s in st.of_class('NetworkService'):
        p = st.n[s]
        bw = (caps(p) or {}).get('bw', 0) if jprop(p, 'Capacities') is not None else 0
        exp['services'].append([st.typ(s), bw])
        if p.get('Site'):
            exp['sites'].add(p['Site'])
    for n in st.of_class('NetworkNode'):
        if st.typ(n) == 'Facility':
            exp['facilities'].add(st.name(n))
    return {'vm_count': exp['vm_count'], 'core_count': exp['core_count'], 'p4_count': exp['p4_count'],
            'components': exp['components'], 'services': sorted(exp['services'], key=canon),
            'facilities': sorted(exp['facilities']), 'sites': sorted(exp['sites']),
            'nodes': sorted(exp['nodes'], key=canon)}


@op('collect_log', 'read')
def g_collect_log(w, rng, st):
    if w.cfg['flavour'] != 'experiment':
        return None
    return {'asm': rng.random() < 0.5}


@op('collect_log', 'read')
def x_collect_log(w, s, st, info):
    from fim.logging.log_collector import LogCollector
    if st.dups or not unique_names(st) or not st.of_class('NetworkNode'):
        raise SkipStep()
    lc = LogCollector()
    lc.collect_resource_attributes(source=w.topo)
    a = lc.attributes
    got = {'vm_count': a['vm_count'], 'core_count': a['core_count'], 'p4_count': a['p4_count'],
           'components': dict(a['components']), 'services': sorted([list(t) for t in a['services']], key=canon),
           'facilities': sorted(a['facilities']), 'sites': sorted(a['sites']),
           'nodes': sorted([[c.core, c.ram, c.disk] for c in a['nodes']], key=canon)}
    want = log_expected(st)
    for k in sorted(want):
        if canon(got[k]) != canon(want[k]):
            w.flag('C11', 'accounting_tally', {'field': k},
                   'accounting summary %s = %s, a direct tally of the slice gives %s' % (k, canon(got[k])[:200],
                                                                                         canon(want[k])[:200]))
            return
    str(lc)
    w.stats.inc('probe.accounting')
    if not s.get('asm') or w.pending:
        return
    # ---- the same summary from the serialized model (validates the slice first, may record inferred sites), and the
    # model it was collected from is still there afterwards, unchanged but for those sites
    info['may_write'] = True
    accept, reason, record = w2_validate.validate_expected(st, 'experiment')
    asm = w.topo.graph_model
    lc2 = LogCollector()
    try:
        lc2.collect_resource_attributes(source=asm)
    except Exception as e:
        if accept and type(asm).__name__ == 'NetworkxASM':
            w.flag('C11', 'accounting_tally', {'field': '<raised>', 'source': 'serialized model', 'exc': type(e).__name__},
                   'accounting summary from the serialized model of a valid slice raised %s: %s' %
                   (type(e).__name__, str(e)[:200]))
        w.stats.inc('probe.accounting_asm_rejected')
        accept = False
    post = {'nodes': {k: [dict(v[0])] for k, v in st.state['nodes'].items()}, 'edges': st.state['edges']}
    for sid, site in record.items():
        post['nodes'][sid][0]['Site'] = site
    now = graph_state(w.imp, w.topo.graph_model.graph_id)
    if canon(now) != canon(st.state) and not (canon(now) == canon(post)):
        if not now['nodes']:
            w.flag('C11', 'accounting_source_untouched', {'symptom': 'model_gone'},
                   'after the accounting summary was collected from the serialized model, the model itself holds no '
                   'elements any more')
            return
        if accept:
            w.flag('C11', 'accounting_source_untouched', {'symptom': 'changed'},
                   'collecting the accounting summary from the serialized model changed the model (beyond recording '
                   'inferred sites)')
            return
    if not accept:
        return
    a2 = lc2.attributes
    got2 = {'vm_count': a2['vm_count'], 'core_count': a2['core_count'], 'p4_count': a2['p4_count'],
            'components': dict(a2['components']), 'services': sorted([list(t) for t in a2['services']], key=canon),
            'facilities': sorted(a2['facilities']), 'sites': sorted(a2['sites']),
            'nodes': sorted([[c.core, c.ram, c.disk] for c in a2['nodes']], key=canon)}
    want2 = log_expected(Struct(post))
    for k in sorted(want2):
        if canon(got2[k]) != canon(want2[k]):
            w.flag('C11', 'accounting_tally', {'field': k, 'source': 'serialized model'},
                   'accounting summary from the serialized model: %s = %s, a direct tally of the slice gives %s' %
                   (k, canon(got2[k])[:200], canon(want2[k])[:200]))
            return
    w.stats.inc('probe.accounting_asm')


@op('label_service_port', 'add')
def g_label_service_port(w, rng, st):
    """what the orchestrator does on an ASM: put the peer's local name on a service port (makes ports 'in slice')"""
    cands = []
    for sv in top_services(st):
        for sp in st.cps_of_service(sv):
            if st.typ(sp) == 'ServicePort' and st.peers(sp):
                cands.append((st.name(sv), st.name(sp)))
    if not cands:
        return None
    sv, sp = rng.choice(cands)
    mirrors = [st.n[x].get('MirrorPort') for x in st.of_class('NetworkService') if st.typ(x) == 'PortMirror']
    names = [m for m in mirrors if m] + ['p1', 'p2']
    return {'svc': sv, 'port': sp, 'local_name': rng.choice(names)}


@op('label_service_port', 'add')
def x_label_service_port(w, s, st, info):
    from fim.slivers.capacities_labels import Labels
    sv = get_service(w, s['svc'], fresh=True)
    c = [i for i in sv.interface_list if i.name == s['port']]
    if not c:
        raise SkipStep()
    c[0].set_property('labels', Labels(local_name=s['local_name']))
