"""
C01 — serialization round trip as an operation of W1 (and reused by W2/W3).
Texts are parsed by an independent reader (lxml / json), never by the code
under test, and compared by NodeID with the reference model's content.
"""
import json

from lxml import etree

from .kernel import SkipStep, canon
from .pgmodel import CLASS, NODE_ID, GRAPH_ID

NS = '{http://graphml.graphdrawing.org/xmlns}'


class TextError(Exception):
    pass


def parse_graphml(text):
    """-> (nodes {key: props}, edges [(k1,k2,props)], markup problems [str])"""
    try:
        root = etree.fromstring(text.encode('utf-8'))
    except Exception as e:
        raise TextError('not well-formed XML: %s' % e)
    keys = {}
    for k in root.findall(NS + 'key'):
        if k.get('id') in keys:
            raise TextError('two <key> declarations share the id %r' % k.get('id'))
        keys[k.get('id')] = (k.get('attr.name'), k.get('attr.type'), k.get('for'))
    graph = root.find(NS + 'graph')
    if graph is None:
        raise TextError('no <graph> element')

    def data_of(el):
        props = {}
        for d in el.findall(NS + 'data'):
            if d.get('key') not in keys:
                raise TextError('data refers to undeclared key %r' % d.get('key'))
            name, typ, _ = keys[d.get('key')]
            txt = d.text if d.text is not None else ''
            try:
                if typ in ('int', 'long'):
                    val = int(txt)
                elif typ in ('float', 'double'):
                    val = float(txt)
            except ValueError:
                raise TextError('data %r is not of the declared type %s' % (txt[:30], typ))
            if typ in ('int', 'long', 'float', 'double'):
                pass
            elif typ == 'boolean':
                val = txt.strip().lower() == 'true'
            else:
                val = txt
            props[name] = val
        return props
    nodes, edges, markup = {}, [], []
    for n in graph.findall(NS + 'node'):
        p = data_of(n)
        nodes[n.get('id')] = p
        want = ':GraphNode:%s' % p.get(CLASS)
        if n.get('labels') != want:
            markup.append('node %s (NodeID %r) has labels=%r, the persistent importer needs %r' %
                          (n.get('id'), p.get(NODE_ID), n.get('labels'), want))
    for e in graph.findall(NS + 'edge'):
        p = data_of(e)
        edges.append((e.get('source'), e.get('target'), p))
        if e.get('label') != p.get(CLASS):
            markup.append('edge %s-%s has label=%r, expected %r' % (e.get('source'), e.get('target'), e.get('label'),
                                                                  p.get(CLASS)))
    return nodes, edges, markup


def parse_nodelink(text):
    try:
        data = json.loads(text)
    except Exception as e:
        raise TextError('not JSON: %s' % e)
    nodes = {}
    for n in data.get('nodes', []):
        p = dict(n)
        key = p.pop('id')
        nodes[key] = p
    edges = []
    for e in data.get('edges', data.get('links', [])):
        p = dict(e)
        a, z = p.pop('source'), p.pop('target')
        edges.append((a, z, p))
    return nodes, edges, []


def text_content(text, fmt):
    """content of a serialized graph keyed by NodeID: {'nodes': {nid: [props]}, 'edges': {pair: props}}"""
    nodes, edges, markup = parse_graphml(text) if fmt == 'GRAPHML' else parse_nodelink(text)
    out_n, out_e = {}, {}
    for key, p in nodes.items():
        out_n.setdefault(str(p.get(NODE_ID)), []).append(p)
    for a, z, p in edges:
        if a not in nodes or z not in nodes:
            raise TextError('edge refers to unknown node')
        pair = '~'.join(sorted({str(nodes[a].get(NODE_ID)), str(nodes[z].get(NODE_ID))}))
        out_e[pair] = p
    return {'nodes': out_n, 'edges': out_e}, markup


def model_content(model, g, as_gid=None):
    out_n, out_e = {}, {}
    for k in model.gnodes(g):
        p = dict(model.nodes[k])
        if as_gid is not None:
            p[GRAPH_ID] = as_gid
        out_n.setdefault(str(k[1]), []).append(p)
    for ek, p in model.edges.items():
        if all(x[0] == g for x in ek):
            out_e['~'.join(sorted({str(x[1]) for x in ek}))] = dict(p)
    return {'nodes': out_n, 'edges': out_e}


def content_diff(a, b, na, nb):
    out = []
    for part in ('nodes', 'edges'):
        for k in sorted(set(a[part]) | set(b[part])):
            x, y = a[part].get(k), b[part].get(k)
            if canon(x) != canon(y):
                out.append('%s %s: %s=%s %s=%s' % (part, k, na, canon(x)[:160], nb, canon(y)[:160]))
    return '; '.join(out[:5])


FMT_ENUM = {'GRAPHML': 'GRAPHML', 'JSON_NODELINK': 'JSON_NODELINK'}


def serialize(w, b, gid, fmt):
    from fim.graph.abc_property_graph import GraphFormat
    return w.pg(b, gid).serialize_graph(format=GraphFormat[fmt])


def check_text(w, b, text, fmt, expected, what, oracle='rt_text_content'):
    try:
        content, markup = text_content(text, fmt)
    except TextError as e:
        w.flag('C01', oracle, {'store': b, 'fmt': fmt, 'symptom': 'unparseable'},
               '%s (%s store, %s) is not parseable: %s' % (what, b, fmt, e))
        return
    if fmt == 'GRAPHML' and markup:
        w.flag('C01', 'rt_label_markup', {'store': b}, '%s: %s' % (what, '; '.join(markup[:3])))
    if canon(content) != canon(expected):
        w.flag('C01', oracle, {'store': b, 'fmt': fmt, 'symptom': 'content'},
               '%s (%s store, %s) does not carry the graph content: %s' %
               (what, b, fmt, content_diff(content, expected, 'text', 'model')))


def do_roundtrip(w, s):
    g, fmt, entry, cross, new = s['g'], s['fmt'], s['entry'], s['cross'], s['new']
    m = w.model
    direct = entry.endswith('direct')
    if s.get('saved'):
        return do_load_saved(w, s)
    if not m.gnodes(g):
        raise SkipStep()
    if not direct and m.gnodes(new):
        raise SkipStep()      # the target id must hold nothing (re-import onto a live graph is C04/C05's business)
    # C01 is stated for string/int property values; a 'combine' merge leaves a list behind
    for k in m.gnodes(g):
        if any(not isinstance(v, (str, int)) or isinstance(v, bool) for v in m.nodes[k].values()):
            w.stats.inc('probe.roundtrip.skipped_non_scalar_value')
            raise SkipStep()
    w.touch(g)
    w.touch(new)
    expected_src = model_content(m, g)
    texts = {}
    for b in ('shared', 'disjoint'):
        out = w.real_call(b, lambda bb: serialize(w, bb, g, fmt))
        if out[0] != 'ok' or not isinstance(out[1], str):
            w.flag('C01', 'rt_serialize', {'store': b, 'fmt': fmt, 'got': str(out[1])[:40]},
                   'serializing graph %s (%s) from the %s store failed: %s' % (g, fmt, b, out))
            return set(), 'serialize_failed'
        texts[b] = out[1]
        check_text(w, b, out[1], fmt, expected_src, 'serialized text of %s' % g)
    if w.pending:
        return set(), 'bad_text'
    tgt_id = g if direct else new
    expected_tgt = model_content(m, g, as_gid=tgt_id)
    faults = bool(w.cfg.get('io_faults'))
    raised = {}
    for b in ('shared', 'disjoint'):
        src = ('disjoint' if b == 'shared' else 'shared') if cross else b
        if faults:
            w.seam.armed = True
        try:
            out = w.real_call(b, lambda bb: w.import_call(bb, entry, texts[src], tgt_id))
        finally:
            w.seam.armed = False
        raised[b] = out[0] != 'ok'
        st = w.real_state(b)
        got_n, got_e = w.project(st, tgt_id)
        got = {'nodes': {k.split('|', 1)[1]: v for k, v in got_n.items()},
               'edges': {'~'.join(sorted(p.split('|', 1)[1] for p in k.split('~'))): v for k, v in got_e.items()}}
        if raised[b]:
            if not faults or w.seam.fired == 0:
                w.flag('C01', 'rt_import', {'store': b, 'fmt': fmt, 'entry': entry, 'got': str(out[1])[:40]},
                       're-importing the %s text of %s through %s into the %s store failed: %s' %
                       (fmt, g, entry, b, out))
            else:
                # relaxed oracle under injected I/O faults: may fail, may never store a different graph
                before = expected_src if direct else {'nodes': {}, 'edges': {}}
                if canon(got) not in (canon(before), canon(expected_tgt)):
                    w.flag('C01', 'rt_fault_never_wrong', {'store': b, 'entry': entry},
                           'import failed under an injected I/O fault but left a different graph behind: %s' %
                           content_diff(got, expected_tgt, 'stored', 'expected'))
        else:
            if out[1] != tgt_id:
                w.flag('C01', 'rt_state_equal', {'store': b, 'symptom': 'graph_id', 'entry': entry},
                       'import through %s returned graph id %r, expected %r' % (entry, out[1], tgt_id))
            if canon(got) != canon(expected_tgt):
                w.flag('C01', 'rt_state_equal', {'store': b, 'fmt': fmt, 'entry': entry,
                                                 'symptom': 'faulted' if (faults and w.seam.fired) else 'content'},
                       'graph %s re-imported (%s, %s) into the %s store as %s differs: %s' %
                       (g, fmt, entry, b, tgt_id, content_diff(got, expected_tgt, 'imported', 'source')))
            else:
                # serialising the copy again gives the same content
                out2 = w.real_call(b, lambda bb: serialize(w, bb, tgt_id, fmt))
                if out2[0] != 'ok':
                    w.flag('C01', 'rt_reserialize_equal', {'store': b, 'symptom': 'raised'},
                           'serializing the re-imported copy failed: %s' % (out2,))
                else:
                    check_text(w, b, out2[1], fmt, expected_tgt, 'text of the re-imported copy',
                               oracle='rt_reserialize_equal')
                # validation outcome of the copy equals that of the source
                v1 = w.real_call(b, lambda bb: w.pg(bb, g).validate_graph())
                v2 = w.real_call(b, lambda bb: w.pg(bb, tgt_id).validate_graph())
                if (v1[0], v1[1] if v1[0] == 'exc' else None) != (v2[0], v2[1] if v2[0] == 'exc' else None):
                    w.flag('C01', 'rt_validates', {'store': b},
                           'validate_graph: source %s -> %s, re-imported copy -> %s' % (g, v1, v2))
    if faults:
        w.faults_fired = w.seam.fired
    # keep the three in lock step
    if any(raised.values()):
        if not direct:
            for b in ('shared', 'disjoint'):
                w.real_call(b, lambda bb: w.imp[bb].delete_graph(graph_id=new))
        w.stats.inc('probe.roundtrip.import_failed')
        return {tgt_id}, 'import_failed'
    if direct:
        if not hasattr(w, 'saved'):
            w.saved = {}
        w.saved[g] = {'fmt': fmt, 'texts': dict(texts), 'content': expected_src,
                      'nodes': {k: dict(m.nodes[k]) for k in m.gnodes(g)},
                      'edges': {ek: dict(p) for ek, p in m.edges.items() if all(x[0] == g for x in ek)}}
    if not direct:
        m.clone_graph(g, new)
    else:
        # the graph was replaced by its own copy: edges to nodes of other graphs (left by node merging) go
        for ek in [ek for ek in m.edges if any(x[0] == g for x in ek) and not all(x[0] == g for x in ek)]:
            del m.edges[ek]
    w.mutations += 1
    w.stats.inc('probe.roundtrip.%s.%s.%s' % (fmt, entry, 'cross' if cross else 'same'))
    return {tgt_id}, 'ok'


def do_load_saved(w, s):
    """The text a graph was serialized to by an earlier step is loaded again under its own id after the graph was
    edited (or deleted) in between: the stored graph is then exactly the saved one, in both stores."""
    g, fmt, entry, cross = s['g'], s['fmt'], s['entry'], s['cross']
    sv = getattr(w, 'saved', {}).get(g)
    if sv is None or sv['fmt'] != fmt or not entry.endswith('direct'):
        raise SkipStep()
    m = w.model
    w.touch(g)
    expected = sv['content']
    changed = canon(model_content(m, g)) != canon(expected)
    raised = False
    for b in ('shared', 'disjoint'):
        src = ('disjoint' if b == 'shared' else 'shared') if cross else b
        out = w.real_call(b, lambda bb: w.import_call(bb, entry, sv['texts'][src], g))
        if out[0] != 'ok':
            raised = True
            w.flag('C01', 'rt_import', {'store': b, 'fmt': fmt, 'entry': entry, 'got': str(out[1])[:40], 'saved': True},
                   'loading the saved %s text of %s through %s into the %s store failed: %s' % (fmt, g, entry, b, out))
            continue
        st = w.real_state(b)
        got_n, got_e = w.project(st, g)
        got = {'nodes': {k.split('|', 1)[1]: v for k, v in got_n.items()},
               'edges': {'~'.join(sorted(p.split('|', 1)[1] for p in k.split('~'))): v for k, v in got_e.items()}}
        if canon(got) != canon(expected):
            w.flag('C01', 'rt_state_equal', {'store': b, 'fmt': fmt, 'entry': entry, 'symptom': 'content', 'saved': True},
                   'graph %s loaded again from the %s text saved earlier (%s, %s store; the graph %s since) differs from '
                   'what was saved: %s' % (g, fmt, entry, b, 'was edited' if changed else 'is unchanged',
                                           content_diff(got, expected, 'loaded', 'saved')))
    if raised:
        return {g}, 'import_failed'
    m.delete_graph(g)
    for k, p in sv['nodes'].items():
        m.nodes[k] = dict(p)
    for ek, p in sv['edges'].items():
        m.edges[ek] = dict(p)
    w.mutations += 1
    w.stats.inc('probe.roundtrip.saved.%s.%s' % (entry, 'edited' if changed else 'unchanged'))
    return {g}, 'ok'
