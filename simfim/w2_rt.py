"""C01 in W2: Topology.serialize -> load / constructor-from-string on topology-built models."""
import os

from .kernel import SkipStep, canon
from .struct import Struct, graph_state, state_diff
from .w2_ops import op
from . import roundtrip as RT


@op('roundtrip', 'read')
def g_roundtrip(w, rng, st):
    if not st.n:
        return None
    w.idc += 1
    return {'fmt': rng.choice(['GRAPHML', 'JSON_NODELINK']), 'via': rng.choice(['string', 'file']),
            'policy': rng.choice(['new_id', 'keep_id', 'same_object']), 'new': 'rt-%d' % w.idc}


def content_of(state):
    """abstract state -> the shape roundtrip.text_content produces (GraphID is dropped on both sides)"""
    return {'nodes': {k: [dict(p) for p in v] for k, v in state['nodes'].items()}, 'edges': state['edges']}


def strip_gid(content):
    for lst in content['nodes'].values():
        for p in lst:
            p.pop('GraphID', None)
    return content


@op('roundtrip', 'read')
def x_roundtrip(w, s, st, info):
    from fim.graph.abc_property_graph import GraphFormat
    from fim.user.topology import ExperimentTopology, SubstrateTopology
    info['may_write'] = True
    if st.dups:
        raise SkipStep()
    fmt = GraphFormat[s['fmt']]
    src = st.state
    if s['via'] == 'file':
        path = os.path.join(w.scratch, 'topo-%s.txt' % s['new'])
        r = w.topo.serialize(file_name=path, fmt=fmt)
        with open(path, encoding='utf-8') as f:
            text = f.read()
    else:
        path = None
        text = w.topo.serialize(fmt=fmt)
    if not isinstance(text, str):
        w.flag('C01', 'rt_serialize', {'world': 'W2'}, 'Topology.serialize returned %r' % type(text))
        return
    try:
        content, markup = RT.text_content(text, s['fmt'])
    except RT.TextError as e:
        w.flag('C01', 'rt_text_content', {'world': 'W2', 'fmt': s['fmt'], 'symptom': 'unparseable'},
               'serialized topology is not parseable: %s' % e)
        return
    if s['fmt'] == 'GRAPHML' and markup:
        w.flag('C01', 'rt_label_markup', {'world': 'W2'}, '; '.join(markup[:3]))
    if canon(strip_gid(content)) != canon(content_of(src)):
        w.flag('C01', 'rt_text_content', {'world': 'W2', 'fmt': s['fmt'], 'symptom': 'content'},
               'serialized topology does not carry the model: %s' % state_diff(strip_gid(content), content_of(src), 'text', 'model'))
        return
    cls = SubstrateTopology if w.cfg['flavour'] == 'substrate' else ExperimentTopology
    # 'same_object': the topology re-loads its own serialized model (same graph id) into itself
    t2 = w.topo if s['policy'] == 'same_object' else cls(importer=w.imp)
    if s['policy'] == 'same_object':
        w.handles.clear()
    try:
        if s['via'] == 'file':
            t2.load(file_name=path)                      # keeps the graph id (direct import)
            gid2 = w.gid()
        elif s['policy'] in ('keep_id', 'same_object'):
            gid_before = w.gid()
            t2.load(graph_string=text)
            gid2 = gid_before
        else:
            t2.load(graph_string=text, new_graph_id=s['new'])
            gid2 = s['new']
    except Exception as e:
        w.flag('C01', 'rt_import', {'world': 'W2', 'fmt': s['fmt'], 'via': s['via'], 'exc': type(e).__name__},
               'loading the serialized topology (%s, %s) raised %s: %s' % (s['fmt'], s['via'], type(e).__name__, str(e)[:200]))
        return
    if t2.graph_model.graph_id != gid2:
        w.flag('C01', 'rt_state_equal', {'world': 'W2', 'symptom': 'graph_id'},
               'loaded topology has graph id %s, expected %s' % (t2.graph_model.graph_id, gid2))
        return
    got = graph_state(w.imp, gid2)
    if canon(got) != canon(src):
        w.flag('C01', 'rt_state_equal', {'world': 'W2', 'fmt': s['fmt'], 'via': s['via'], 'policy': s['policy']},
               'the loaded topology differs from its source: %s' % state_diff(got, src, 'loaded', 'source'))
        return
    try:
        t2.graph_model.validate_graph()
    except Exception as e:
        w.flag('C01', 'rt_validates', {'world': 'W2', 'exc': type(e).__name__},
               'a topology-built model fails the library\'s graph validation after import: %s' % str(e)[:300])
    text2 = t2.serialize(fmt=fmt)
    try:
        c2, _ = RT.text_content(text2, s['fmt'])
        if canon(strip_gid(c2)) != canon(content_of(src)):
            w.flag('C01', 'rt_reserialize_equal', {'world': 'W2', 'fmt': s['fmt']},
                   'serializing the loaded copy gives different content: %s' % state_diff(strip_gid(c2), content_of(src)))
    except RT.TextError as e:
        w.flag('C01', 'rt_reserialize_equal', {'world': 'W2', 'symptom': 'unparseable'}, str(e))
    if gid2 != w.gid():
        w.imp.delete_graph(graph_id=gid2)
    w.stats.inc('probe.topology_roundtrip.%s.%s.%s' % (s['fmt'], s['via'], s['policy']))
