"""
W2 — the topology world.  One user session drives an ExperimentTopology (or a
SubstrateTopology) through the documented building calls; after every call the
model graph is read white-box from the store and judged by:
  C07 published rules + containment + name scopes + read-only views,
  C08 exact post-state of removals (independent owned-closure prediction) + handle clause,
  C09 a call that raised left the model unchanged,
  C02 set/get/unset of properties, C10 validate(), C11 attribute collection, C17 sliver diff
  (the last four live in w2_props.py / w2_validate.py / w2_authz.py / w2_diff.py).
"""
import json

from .kernel import World, Violation, SkipStep, HarnessError, canon, h8
from .values import wchoice
from .struct import graph_state, other_graphs_state, state_diff, Struct, jprop, CLASS, NODE_ID, NAME, TYPE
from . import seams

SITES = ['RENC', 'UKY', 'LBNL']
NODE_NAMES = ['n1', 'n2', 'n3', 'n4', 'n5']
COMP_NAMES = ['nic1', 'nic2', 'gpu1', 'nvme1', 'fpga1']
SVC_NAMES = ['s1', 's2', 's3', 's4', 's5']
FAC_NAMES = ['fac1', 'fac2']
SW_NAMES = ['sw1', 'sw2']
SUB_NAMES = ['sub1', 'sub2', 'sub3']
EXP_SVC_TYPES = ['L2Bridge', 'L2PTP', 'L2STS', 'FABNetv4', 'FABNetv6', 'FABNetv4Ext', 'FABNetv6Ext', 'L3VPN']
COMP_MODELS = ['GPU_RTX6000', 'GPU_Tesla_T4', 'GPU_A40', 'GPU_A30', 'SharedNIC_ConnectX_6',
               'SmartNIC_BlueField_2_ConnectX_6', 'SmartNIC_ConnectX_6', 'SmartNIC_ConnectX_5',
               'SharedNIC_OpenStack_vNIC', 'NVME_P4510', 'FPGA_Xilinx_U280', 'FPGA_Xilinx_SN1022']
# components with interfaces take part in far more of the behaviour under test than GPUs and drives do
COMP_MODELS_NIC_BIAS = ['SharedNIC_ConnectX_6', 'SharedNIC_ConnectX_6', 'SharedNIC_OpenStack_vNIC',
                        'SmartNIC_ConnectX_6', 'SmartNIC_ConnectX_5', 'SmartNIC_BlueField_2_ConnectX_6']

# ---- pinned copy of fim/graph/data/graph_validation_rules.json vocabularies (rule numbers as in that file)
RULE_CLASSES = ["ConnectionPoint", "NetworkNode", "CompositeNode", "NetworkService", "Component", "Link"]
RULE_NODE_TYPES = ["Server", "Switch", "VM", "Container", "NAS", "Facility"]
RULE_COMP_TYPES = ["SmartNIC", "GPU", "FPGA", "NVME", "SharedNIC", "Storage"]
RULE_CP_TYPES = ["AccessPort", "TrunkPort", "ServicePort", "DedicatedPort", "SharedPort", "vInt", "FacilityPort",
                 "SubInterface", "StitchPort"]
RULE_NS_TYPES = ["P4", "OVS", "MPLS", "VLAN", "L2Path", "L2Bridge", "L2PTP", "L2STS", "L2Multisite", "FABNetv4", "FABNetv6",
                 "FABNetv4Ext", "FABNetv6Ext", "L3VPN", "PortMirror"]
RULE_LINK_TYPES = ["L1Path", "L2Path", "Patch"]

BASE_MIX = {
    'add_node': 10, 'add_component': 12, 'add_storage': 2, 'add_facility': 3, 'add_switch': 2,
    'add_network_service': 10, 'add_port_mirror_service': 3, 'connect_interface': 6, 'disconnect_interface': 4,
    'add_child_interface': 4, 'remove_child_interface': 2, 'peer': 2, 'unpeer': 2,
    'remove_node': 3, 'remove_component': 3, 'remove_network_service': 3, 'remove_facility': 1, 'remove_switch': 1,
    'remove_storage': 1,
    'set_property': 6, 'unset_property': 2, 'rename': 2, 'update_labels': 1, 'update_capacities': 1,
    'set_properties': 1, 'prop_setter': 1, 'edit_tracked': 1, 'respell_user_data': 1,
    'validate': 3, 'roundtrip': 2, 'get_sliver': 3, 'sliver_copy': 1, 'checkpoint': 1, 'diff_slivers': 2,
    'diff_copy_edit': 1,
    'collect_authz': 2, 'collect_log': 1, 'views_readonly': 1, 'prune': 1, 'label_service_port': 1,
    # substrate flavour
    'node_add_network_service': 0.4, 'svc_add_interface': 0.8, 'add_link': 0, 'remove_link': 0,
    'svc_remove_interface': 0, 'node_remove_network_service': 0,
}
SUBSTRATE_MIX = {
    'add_node': 10, 'add_component': 8, 'add_facility': 2, 'add_switch': 3,
    'node_add_network_service': 8, 'svc_add_interface': 10, 'add_link': 8, 'remove_link': 3,
    'svc_remove_interface': 4, 'node_remove_network_service': 3,
    'remove_node': 3, 'remove_component': 3, 'remove_facility': 1, 'remove_switch': 1,
    'set_property': 5, 'unset_property': 2, 'rename': 1, 'get_sliver': 2, 'roundtrip': 2, 'views_readonly': 1,
    'validate': 1, 'add_child_interface': 4, 'remove_child_interface': 2, 'set_properties': 1,
    'checkpoint': 1, 'diff_slivers': 1, 'edit_tracked': 1, 'respell_user_data': 1, 'sliver_copy': 1,
    'diff_copy_edit': 1,
}
PROP_BOOST = {
    'C07': {'add_child_interface': 8, 'remove_node': 5, 'remove_component': 5, 'failing': 6, 'connect_interface': 9,
            'peer': 7, 'unpeer': 8, 'remove_switch': 3, 'remove_facility': 3},
    'C08': {'remove_node': 8, 'remove_component': 10, 'remove_network_service': 8, 'disconnect_interface': 8,
            'remove_child_interface': 5, 'unpeer': 5, 'remove_facility': 3, 'remove_switch': 3, 'prune': 3,
            'add_child_interface': 11, 'peer': 5, 'connect_interface': 13, 'add_link': 10, 'svc_add_interface': 10,
            'remove_link': 4, 'svc_remove_interface': 6, 'node_remove_network_service': 5},
    'C09': {'failing': 14, 'peer': 5, 'connect_interface': 8, 'add_child_interface': 5},
    'C02': {'set_property': 20, 'unset_property': 8, 'get_sliver': 10, 'sliver_copy': 6, 'set_properties': 4, 'prop_setter': 4,
            'update_labels': 3, 'update_capacities': 3},
    'C10': {'validate': 14, 'add_network_service': 14, 'connect_interface': 8, 'set_property': 8,
            'node_add_network_service': 5, 'svc_add_interface': 9},
    'C11': {'collect_authz': 10, 'collect_log': 5, 'add_port_mirror_service': 10, 'add_facility': 5, 'add_switch': 4,
            'set_property': 8,
            'add_network_service': 12, 'roundtrip': 3, 'label_service_port': 6, 'validate': 4, 'add_component': 14},
    'C17': {'checkpoint': 3, 'diff_slivers': 22, 'diff_copy_edit': 14, 'edit_tracked': 14, 'respell_user_data': 6, 'set_property': 10, 'add_component': 12, 'remove_component': 6,
            'add_child_interface': 6, 'node_add_network_service': 8, 'node_remove_network_service': 4,
            'svc_add_interface': 6, 'remove_child_interface': 3},
    'C01': {'roundtrip': 12},
}


def exc_class(e):
    return type(e).__name__


class W2World(World):
    name = 'W2'

    @classmethod
    def draw_config(cls, rng, prop, tier):
        substrate = rng.random() < (0.35 if prop == 'C17' else 0.2 if prop in ('C07', 'C08', 'C09', 'C02', 'C01') else 0.0)
        mix = dict(SUBSTRATE_MIX if substrate else BASE_MIX)
        for k, w in PROP_BOOST.get(prop, {}).items():
            if k == 'failing' or (substrate and k in SUBSTRATE_MIX) or (not substrate and BASE_MIX.get(k, 0) > 0):
                mix[k] = w
        if prop != 'C09':
            mix.setdefault('failing', 2)
        for k in list(mix):
            r = rng.random()
            if r < 0.1 and k not in ('add_node', 'add_component', 'add_network_service'):
                mix[k] = 0
            elif r < 0.25:
                mix[k] = mix[k] * 3
        return {
            'prop': prop,
            'flavour': 'substrate' if substrate else 'experiment',
            'store': rng.choice(['shared', 'shared', 'disjoint']),
            'steps': rng.randint(3, 8) if rng.random() < 0.25 else rng.randint(10, 32),
            'mix': mix,
            'p_supplied_id': rng.choice([0.0, 0.2, 0.6]),
            'retain_handles': rng.random() < 0.6,
            'views_every': rng.choice([1, 3, 5, 8]),
            'avoid_known': rng.random() < 0.8,
            'avoid_some': None if rng.random() < 0.85 else sorted(t for t in sorted(seams.avoid_set()) if rng.random() < 0.6),
            'other_graph': rng.random() < 0.5,
            'second_session': rng.random() < 0.35,
            # the topology object is an instance of a (trivial) user-defined subclass of the library's class
            'subclassed': rng.random() < 0.2,
            'step_cap': 600,
        }

    def __init__(self, seed, cfg, log, stats, streams):
        self.seed, self.cfg, self.log, self.stats, self.streams = seed, cfg, log, stats, streams
        self.prop = cfg['prop']
        self.pending = []
        self.state_hashes = set()
        self.steps_done = 0
        self.since_views = 0
        self.queue = []
        self._last_struct = None
        self.mutations = 0
        self.failed_calls = 0
        self.avoid = seams.avoid_set() if cfg.get('avoid_known') else set()
        if cfg.get('avoid_some') is not None:
            # runs that do not steer around ALL recorded findings steer around some of them: a finding that is reached
            # early and ends the run must not keep the states behind the other findings out of reach
            self.avoid = set(t for t in seams.avoid_set() if t in cfg['avoid_some'])
        self.seam = seams.Seams(streams, stats)
        self.seam.install_uuid()
        self.scratch = self.seam.make_scratch()
        self.values_rng = streams.get('values')
        self.idc = 0
        self.handles = {}        # retained service handles: name -> NetworkService object
        self.if_handles = {}     # retained port handles: 'node/interface' -> Interface object
        self.checkpoints = []    # list of (graph_id, abstract state at checkpoint time)
        from fim.graph.networkx_property_graph import NetworkXGraphStorage, NetworkXGraphImporter
        from fim.graph.networkx_property_graph_disjoint import NetworkXGraphStorageDisjoint, \
            NetworkXGraphImporterDisjoint
        NetworkXGraphStorage.storage_instance = None
        NetworkXGraphStorageDisjoint.storage_instance = None
        self.imp = NetworkXGraphImporter() if cfg['store'] == 'shared' else NetworkXGraphImporterDisjoint()
        from fim.user.topology import ExperimentTopology, SubstrateTopology
        if cfg.get('subclassed'):
            class ExperimentTopology(ExperimentTopology):     # noqa: F811
                pass

            class SubstrateTopology(SubstrateTopology):       # noqa: F811
                pass
        if cfg.get('other_graph'):
            # a bystander graph in the same store: must never change (isolation seen from the topology API)
            other = ExperimentTopology(importer=self.imp)
            on = other.add_node(name='bystander', site='RENC')
            on.add_component(name='nic1', model_type=self.cmt('SmartNIC_ConnectX_6'))
            self.bystander = other
        else:
            self.bystander = None
        import copy
        from fim.slivers.network_node import NodeSliver
        from fim.slivers.network_service import NetworkServiceSliver
        # process-global tables a run must not inherit from the previous run of this worker
        self._tables = (copy.deepcopy(NodeSliver.NodeConstraints), copy.deepcopy(NetworkServiceSliver.ServiceConstraints))
        self.topo = SubstrateTopology(importer=self.imp) if cfg['flavour'] == 'substrate' else \
            ExperimentTopology(importer=self.imp)
        self.by_pre = other_graphs_state(self.imp, self.gid())
        # A second session: another topology of the same flavour in the same store, built by steps interleaved with
        # the first one's. Names and caller-supplied ids are drawn from the same pools, so the two models hold
        # equally named / equally identified elements; every oracle applies to whichever session a step belongs to,
        # and the frame oracle demands that the other session's graph (like the bystander) is left untouched.
        self.active = 'A'
        self.sessions = {'A': None}
        if cfg.get('second_session'):
            tb = SubstrateTopology(importer=self.imp) if cfg['flavour'] == 'substrate' else \
                ExperimentTopology(importer=self.imp)
            self.sessions['B'] = {'topo': tb, 'handles': {}, 'if_handles': {}, 'checkpoints': [], '_last_struct': None,
                                  'since_views': 0, 'queue': []}
            self.by_pre = other_graphs_state(self.imp, self.gid())

    SESSION_FIELDS = ('topo', 'handles', 'if_handles', 'checkpoints', '_last_struct', 'since_views', 'queue')

    def activate(self, sess):
        if sess == self.active or sess not in self.sessions:
            return
        self.sessions[self.active] = {k: getattr(self, k) for k in self.SESSION_FIELDS}
        for k, v in self.sessions[sess].items():
            setattr(self, k, v)
        self.sessions[sess] = None
        self.active = sess
        self.by_pre = other_graphs_state(self.imp, self.gid())

    # ---- helpers
    def gid(self):
        return self.topo.graph_model.graph_id

    def cmt(self, name):
        from fim.slivers.component_catalog import ComponentModelType
        return ComponentModelType[name]

    def close(self):
        self.seam.uninstall()
        from fim.slivers.network_node import NodeSliver
        from fim.slivers.network_service import NetworkServiceSliver
        if getattr(self, '_tables', None):
            NodeSliver.NodeConstraints, NetworkServiceSliver.ServiceConstraints = self._tables
        from fim.graph.networkx_property_graph import NetworkXGraphStorage
        from fim.graph.networkx_property_graph_disjoint import NetworkXGraphStorageDisjoint
        NetworkXGraphStorage.storage_instance = None
        NetworkXGraphStorageDisjoint.storage_instance = None

    def is_nontrivial(self):
        if self.prop == 'C09':
            return self.failed_calls > 0
        return self.mutations > 0

    def flag(self, prop, oracle, sig, detail):
        self.pending.append(Violation(prop, oracle, dict(sig, flavour=self.cfg['flavour']), detail))

    def end_step(self):
        if self.pending:
            # Two open C07 findings (derived port / link names collide) describe a state that is otherwise a perfectly
            # usable model; checks of OTHER properties keep exploring from it instead of ending the run there (the
            # C07 check itself reports it as before). Only findings marked continue_in_other_checks qualify.
            keep = []
            for v in self.pending:
                fid = self.tolerated(v) if v.prop != self.prop else None
                if fid:
                    self.stats.inc('foreign_known_tolerated.%s' % fid)
                    self.tolerated_names = True
                else:
                    keep.append(v)
            self.pending = keep
        if self.pending:
            own = [v for v in self.pending if v.prop == self.prop]
            v = own[0] if own else self.pending[0]
            self.pending = []
            raise v

    _TOL = None

    def tolerated(self, v):
        if W2World._TOL is None:
            from . import kernel
            W2World._TOL = [f for f in kernel.load_known_findings()
                            if f.get('status') == 'open' and f.get('continue_in_other_checks')]
        for f in W2World._TOL:
            if f['property'] == v.prop and all(v.signature.get(k) == x for k, x in f['signature'].items()):
                return f['id']
        return None

    def state(self):
        return graph_state(self.imp, self.gid())

    def new_id(self, rng):
        self.idc += 1
        return 'id-%d' % self.idc

    # ------------------------------------------------------------------ generation
    def gen_step(self, rng):
        if len(self.sessions) > 1:
            # a multi-step sequence stays with its session; otherwise the next step goes to either
            pending_other = [k for k, c in self.sessions.items() if c is not None and c['queue']]
            if not self.queue:
                if pending_other:
                    self.activate(pending_other[0])
                elif self.steps_done < self.cfg['steps']:
                    self.activate('B' if rng.random() < 0.4 else 'A')
        s = self.gen_step_(rng)
        if s is not None and len(self.sessions) > 1:
            s['sess'] = self.active
        return s

    def gen_step_(self, rng):
        if self.steps_done >= self.cfg['steps'] and not self.queue:
            return None
        self.steps_done += 1
        from . import w2_ops
        if self.queue:
            return self.queue.pop(0)
        st = Struct(self.state())
        if self.prop == 'C17' and not self.checkpoints and self.steps_done >= 4 and st.of_class('NetworkNode'):
            s = w2_ops.generate(self, rng, 'checkpoint', st)
            if s is not None:
                return s
        if self.prop in ('C08', 'C07', 'C10') and 'subif_name_reuse' not in self.avoid and rng.random() < 0.06:
            seq = w2_ops.twin_port_sequence(self, rng, st, then_validate=self.prop == 'C10')
            if seq:
                self.queue = seq[1:]
                return seq[0]
        if self.prop == 'C17' and self.checkpoints and rng.random() < 0.12:
            from . import w2_diff
            seq = w2_diff.single_edit_sequence(self, rng, st)
            if seq:
                self.queue = seq[1:]
                return seq[0]
        for _ in range(8):
            op = wchoice(rng, self.cfg['mix'])
            if op == 'failing' and self.prop == 'C09' and self.steps_done <= 0.4 * self.cfg['steps'] and \
                    self.cfg['steps'] >= 10:
                continue        # build a model first: rejected calls are most telling in a model that has structure
            s = w2_ops.generate(self, rng, op, st)
            if s is not None:
                return s
        return w2_ops.generate(self, rng, 'add_node', st)

    # ------------------------------------------------------------------ execution
    def exec_step(self, s):
        from . import w2_ops
        op = s['op']
        self._cur_op = op
        if s.get('sess'):
            if s['sess'] not in self.sessions:
                raise SkipStep()
            self.activate(s['sess'])
            self.stats.inc('probe.second_session.steps_%s' % s['sess'])
        pre = self.state()
        pre_struct = Struct(pre)
        info = w2_ops.execute(self, s, pre, pre_struct)      # {'outcome': 'ok'|'exc:<Class>', 'kind': ..., ...}
        post = self.state()
        post_struct = Struct(post)
        outcome = info['outcome']
        changed = canon(pre) != canon(post)
        # ---- C09: a call that raised leaves the model unchanged
        if outcome.startswith('exc:') and info.get('kind') != 'read':
            self.failed_calls += 1
            self.stats.inc('faults.rejected_call.%s' % (s.get('template') or op))
            if changed:
                self.flag('C09', 'failed_call_unchanged',
                          {'op': op, 'template': s.get('template', ''), 'exc': outcome[4:], 'pos': s.get('pos', '')},
                          '%s raised %s but the model changed: %s; step=%s' %
                          (op, outcome[4:], state_diff(post, pre), canon(s)[:500]))
        if info.get('kind') == 'read' and changed and not info.get('may_write'):
            self.flag('C07', 'views_readonly', {'op': op}, 'read operation %s changed the model: %s' %
                      (op, state_diff(post, pre)))
        if outcome == 'ok' and changed:
            self.mutations += 1
        # ---- C08: removals
        if info.get('kind') == 'remove':
            w2_ops.check_removal(self, s, info, pre, pre_struct, post, post_struct)
        elif info.get('handles'):
            w2_ops.check_handles(self, s, info, post, post_struct)
        if outcome == 'ok' and op in ('connect_interface', 'add_network_service', 'failing'):
            from . import w2_validate
            w2_validate.check_guardrail(self, s, info, post_struct)
        # ---- C07 after every call
        from . import w2_rules
        w2_rules.check_invariants(self, post, post_struct, op)
        self._last_struct = post_struct
        self.since_views += 1
        if not [v for v in self.pending if v.prop == 'C07'] and (self.since_views >= self.cfg.get('views_every', 3) or info.get('kind') == 'remove'
                                 or op in ('rename', 'roundtrip')):
            w2_rules.check_views(self, post_struct, op)
            self.since_views = 0
        # ---- the bystander graph in the same store never changes
        if True:
            now = other_graphs_state(self.imp, self.gid())
            if now != self.by_pre and op not in ('checkpoint', 'roundtrip', 'collect_authz', 'collect_log', 'sliver_copy'):
                self.flag('C04', 'frame_other_graphs', {'op': op, 'world': 'W2'},
                          'topology call %s changed another graph in the same store' % op)
            self.by_pre = now
        sh = h8(canon(post))
        self.state_hashes.add(sh)
        self.log.add(self.cur_step, op, s.get('template'), outcome, sh)
        self.stats.inc('ops.%s.%s' % (op, 'ok' if outcome == 'ok' else 'raised'))
        self.end_step()

    def finish(self):
        from . import w2_rules
        for sess in sorted(self.sessions):
            self.activate(sess)
            if self.since_views and self._last_struct is not None and not getattr(self, 'tolerated_names', False):
                # (name-keyed views of a model with the tolerated derived-name collisions are not judged)
                w2_rules.check_views(self, self._last_struct, 'end')
                self.end_step()
