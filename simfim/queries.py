"""
C06 — neighbour and path queries as read operations of W1.  The oracle is
computed directly from PGModel's node/edge lists (no networkx involved).
"""
from collections import deque
from itertools import permutations

from .kernel import SkipStep, canon
from .pgmodel import ModelExc, QE, CLASS

CLASSES = ['NetworkNode', 'Component', 'NetworkService', 'ConnectionPoint', 'Link', 'CompositeLink', 'CompositeNode']
RELS = ['has', 'connects', 'depends']


def gen_query(w, rng, s, g):
    op = s['op']
    if op == 'q_first':
        s.update(n=w.pick_node(rng, g), rel=rng.choice(RELS), label=rng.choice(CLASSES))
        # bias toward a class/relation that actually occurs next to n
        nb = w.model.neighbors((g, s['n'])) if (g, s['n']) in w.model.nodes else []
        nb = [(k, p) for k, p in nb if k[0] == g]
        if nb and rng.random() < 0.7:
            k, p = rng.choice(sorted(nb, key=lambda x: repr(x[0])))
            s.update(rel=p.get(CLASS), label=w.model.nodes[k].get(CLASS))
    elif op == 'q_two_hop':
        s.update(n=w.pick_node(rng, g), rel1=rng.choice(RELS), l1=rng.choice(CLASSES),
                 rel2=rng.choice(RELS), l2=rng.choice(CLASSES))
        key = (g, s['n'])
        if key in w.model.nodes and rng.random() < 0.8:
            nb = sorted([(k, p) for k, p in w.model.neighbors(key) if k[0] == g], key=lambda x: repr(x[0]))
            if nb:
                k, p = rng.choice(nb)
                s.update(rel1=p.get(CLASS), l1=w.model.nodes[k].get(CLASS))
                nb2 = sorted([(k2, p2) for k2, p2 in w.model.neighbors(k) if k2[0] == g], key=lambda x: repr(x[0]))
                if nb2 and rng.random() < 0.8:
                    k2, p2 = rng.choice(nb2)
                    s.update(l2=w.model.nodes[k2].get(CLASS))
                    if rng.random() < 0.6:
                        s.update(rel2=p2.get(CLASS))
    elif op == 'q_shortest':
        s.update(a=w.pick_node(rng, g), z=w.pick_node(rng, g),
                 rel=rng.choice(RELS) if rng.random() < 0.6 else None)
        # after node merging the graph has edges into other graphs: ask about its nodes next to those edges
        hot = sorted(set(x[1] for ek in w.model.edges if len(set(y[0] for y in ek)) > 1 for x in ek if x[0] == g))
        if hot and rng.random() < 0.6:
            near = set(hot)
            for h_ in hot:
                near.update(k[1] for k, _ in w.model.neighbors((g, h_)) if k[0] == g)
            near = sorted(near)
            s.update(a=rng.choice(near), z=rng.choice(near), rel=None if rng.random() < 0.6 else s['rel'])
    elif op == 'q_hops':
        a, z = w.pick_node(rng, g), w.pick_node(rng, g)
        ks = sorted(k[1] for k in w.model.gnodes(g))
        hops = []
        for _ in range(rng.randint(0, 2)):
            if ks:
                hops.append(rng.choice(ks))
        # an explicit depth limit (counted in links; paths of exactly that many links are within it) in half the queries
        s.update(a=a, z=z, hops=hops, cut=rng.choice([None, None, None, 1, 2, 2, 3, 3, 4]))
    elif op == 'q_parent':
        s.update(n=w.pick_node(rng, g), rel=rng.choice(RELS), parent=rng.choice(CLASSES))
    elif op == 'q_peers':
        s.update(n=w.pick_node(rng, g))
    elif op == 'q_cps':
        s.update(n=w.pick_node(rng, g), which=rng.choice(['node_or_component', 'ns_or_link', 'child']))


# ---- independent oracle over the model ------------------------------------------------------------

def adj(model, g):
    """adjacency of the intra-graph part of g: node id -> list of (neighbour id, relation)"""
    a = {k[1]: [] for k in model.gnodes(g)}
    for ek, p in model.edges.items():
        if all(x[0] == g for x in ek):
            ks = [x[1] for x in ek]
            if len(ks) == 1:
                a[ks[0]].append((ks[0], p.get(CLASS)))
            else:
                a[ks[0]].append((ks[1], p.get(CLASS)))
                a[ks[1]].append((ks[0], p.get(CLASS)))
    return a


def cls(model, g, n):
    return model.nodes[(g, n)].get(CLASS)


def need(model, g, n):
    if (g, n) not in model.nodes:
        raise ModelExc(QE)


def first(model, g, n, rel, label):
    need(model, g, n)
    a = adj(model, g)
    return sorted(m for m, r in a[n] if r == rel and cls(model, g, m) == label)


def two_hop(model, g, n, rel1, l1, rel2, l2, ignore_rel2=False):
    need(model, g, n)
    a = adj(model, g)
    out = []
    for m, r in a[n]:
        if r == rel1 and cls(model, g, m) == l1:
            if ignore_rel2:
                # exactly what the recorded defect computes: when some edge of m has another relation, m itself
                # (not the far end of that edge) is dropped from m's neighbour set
                drop_m = any(r2 != rel2 for _, r2 in a[m])
                for k in sorted(set(k for k, _ in a[m])):
                    if not (drop_m and k == m) and cls(model, g, k) == l2 and k != n:
                        out.append([m, k])
                continue
            for k, r2 in a[m]:
                if r2 == rel2 and cls(model, g, k) == l2 and k != n:
                    out.append([m, k])
    return sorted(out)


def two_hop_values(w, s, oracle, real_fn, good_fn, known_bad_fn):
    """
    run a query derived from the two-hop query on both backends; classify a wrong answer as the known
    'second hop relation ignored' symptom only when it equals exactly what that defect produces
    """
    try:
        good = ('ok', good_fn())
    except ModelExc as e:
        good = ('exc', e.kind)
    bad = None
    if good[0] == 'ok':
        bad = known_bad_fn()
        if 'two_hop_rel2' in w.avoid and canon(bad) != canon(good[1]):
            w.stats.inc('probe.two_hop.avoided_known_trigger')
            raise SkipStep()
    for b in ('shared', 'disjoint'):
        out = w.real_call(b, real_fn)
        if out[0] != good[0] or (out[0] == 'exc' and out[1] != good[1]):
            w.flag('C06', oracle, {'store': b, 'symptom': 'outcome', 'got': out[1] if out[0] == 'exc' else 'ok',
                                   'want': good[1] if good[0] == 'exc' else 'ok'},
                   '%s on %s store: got %s, expected %s; step=%s' % (s['op'], b, out, good, canon(s)))
        elif out[0] == 'ok' and canon(out[1]) != canon(good[1]):
            sym = 'second_hop_relation_ignored' if canon(out[1]) == canon(bad) else 'wrong_result'
            w.flag('C06', oracle, {'store': b, 'symptom': sym},
                   '%s on %s store returned %s, expected %s; step=%s' % (s['op'], b, canon(out[1])[:300],
                                                                          canon(good[1])[:300], canon(s)))
    if good[0] == 'ok' and good[1]:
        w.stats.inc('probe.%s.nonempty' % s['op'])
    return set(), 'ok' if good[0] == 'ok' else good[1]


def bfs_dist(a, src, dst, rel):
    if src == dst:
        return 0
    seen = {src}
    dq = deque([(src, 0)])
    while dq:
        x, d = dq.popleft()
        for y, r in a[x]:
            if rel is not None and r != rel:
                continue
            if y not in seen:
                if y == dst:
                    return d + 1
                seen.add(y)
                dq.append((y, d + 1))
    return None


def simple_paths(a, src, dst):
    """all simple paths src..dst (src != dst), brute force"""
    out = []

    def rec(path, seen):
        x = path[-1]
        if x == dst:
            out.append(list(path))
            return
        for y, _ in a[x]:
            if y not in seen:
                seen.add(y)
                path.append(y)
                rec(path, seen)
                path.pop()
                seen.discard(y)
    rec([src], {src})
    return out


def induced_acyclic(a, nodes):
    """the subgraph induced by `nodes` has no cycle (self loops count as cycles)"""
    ns = set(nodes)
    edges = set()
    for x in ns:
        for y, _ in a[x]:
            if y in ns:
                if x == y:
                    return False
                edges.add(frozenset({x, y}))
    # forest check: union-find
    parent = {x: x for x in ns}

    def find(x):
        while parent[x] != x:
            parent[x] = parent[parent[x]]
            x = parent[x]
        return x
    for e in edges:
        x, y = tuple(e)
        rx, ry = find(x), find(y)
        if rx == ry:
            return False
        parent[rx] = ry
    return True


def do_query(w, s):
    op, g = s['op'], s['g']
    m = w.model
    w.touch(g)
    pg = lambda b: w.pg(b, g)

    if op == 'q_first':
        w.three_way(s, lambda b: sorted(pg(b).get_first_neighbor(node_id=s['n'], rel=s['rel'], node_label=s['label'])),
                    lambda: first(m, g, s['n'], s['rel'], s['label']), False, value_oracle='q_first')
        _retag(w, 'q_first')
        return set(), 'ok'
    if op == 'q_two_hop':
        args = (m, g, s['n'], s['rel1'], s['l1'], s['rel2'], s['l2'])
        return two_hop_values(w, s, 'q_two_hop',
                              lambda b: sorted(pg(b).get_first_and_second_neighbor(
                                  node_id=s['n'], rel1=s['rel1'], node1_label=s['l1'], rel2=s['rel2'],
                                  node2_label=s['l2'])),
                              lambda: two_hop(*args), lambda: two_hop(*args, ignore_rel2=True))
    if op == 'q_parent':
        def model():
            ids = first(m, g, s['n'], s['rel'], s['parent'])
            if len(ids) != 1:
                return [None, None]
            p = m.nodes[(g, ids[0])]
            if 'Name' not in p:
                raise SkipStep()
            return [p['Name'], ids[0]]
        try:
            model()
        except SkipStep:
            raise
        except ModelExc:
            pass
        w.three_way(s, lambda b: list(pg(b).get_parent(node_id=s['n'], rel=s['rel'], parent=s['parent'])),
                    model, False, value_oracle='q_parent')
        _retag(w, 'q_parent')
        return set(), 'ok'
    if op == 'q_peers':
        def peers(ignore):
            c = two_hop(m, g, s['n'], 'connects', 'Link', 'connects', 'ConnectionPoint', ignore_rel2=ignore)
            return None if not c else sorted(x[1] for x in c)

        def real(b):
            r = pg(b).find_peer_connection_points(node_id=s['n'])
            return None if r is None else sorted(r)
        return two_hop_values(w, s, 'q_peers', real, lambda: peers(False), lambda: peers(True))
    if op == 'q_cps':
        which = s['which']

        def model(ignore=False):
            need(m, g, s['n'])
            c = cls(m, g, s['n'])
            if which == 'node_or_component':
                if c not in ('NetworkNode', 'Component', 'CompositeNode'):
                    raise ModelExc(QE)
                return sorted(x[1] for x in two_hop(m, g, s['n'], 'has', 'NetworkService', 'connects',
                                                    'ConnectionPoint', ignore_rel2=ignore))
            if which == 'ns_or_link':
                if c not in ('Link', 'NetworkService'):
                    raise ModelExc(QE)
                return first(m, g, s['n'], 'connects', 'ConnectionPoint')
            if c != 'ConnectionPoint':
                raise ModelExc(QE)
            return first(m, g, s['n'], 'connects', 'ConnectionPoint')

        def real(b):
            if which == 'node_or_component':
                return sorted(pg(b).get_all_node_or_component_connection_points(parent_node_id=s['n']))
            if which == 'ns_or_link':
                return sorted(pg(b).get_all_ns_or_link_connection_points(link_id=s['n']))
            return sorted(pg(b).get_all_child_connection_points(interface_id=s['n']))
        return two_hop_values(w, s, 'q_cps', real, lambda: model(False), lambda: model(True))

    if op == 'q_shortest':
        a_, z_, rel = s['a'], s['z'], s['rel']
        exists = (g, a_) in m.nodes and (g, z_) in m.nodes
        for b in ('shared', 'disjoint'):
            out = w.real_call(b, lambda bb: pg(bb).get_nodes_on_shortest_path(node_a=a_, node_z=z_, rel=rel))
            if not exists:
                if out != ('exc', QE):
                    w.flag('C06', 'q_shortest', {'store': b, 'symptom': 'missing_node_outcome'},
                           'shortest path with a missing end node: got %s, expected a query exception' % (out,))
                continue
            A = adj(m, g)
            d = bfs_dist(A, a_, z_, rel)
            if out[0] == 'exc':
                w.flag('C06', 'q_shortest', {'store': b, 'symptom': 'raised', 'exc': out[1], 'rel': rel is not None},
                       'shortest path %s->%s rel=%s raised %s; BFS distance in the model is %s; step=%s' %
                       (a_, z_, rel, out[1], d, canon(s)))
                continue
            path = out[1]
            if d is None:
                if path != []:
                    w.flag('C06', 'q_shortest', {'store': b, 'symptom': 'path_where_none'},
                           'no path %s->%s over rel=%s exists but %s was returned' % (a_, z_, rel, path))
                continue
            ok = isinstance(path, list) and len(path) == d + 1 and path[0] == a_ and path[-1] == z_
            if ok:
                for x, y in zip(path, path[1:]):
                    if not any(yy == y and (rel is None or r == rel) for yy, r in A.get(x, [])):
                        ok = False
            if not ok:
                w.flag('C06', 'q_shortest', {'store': b, 'symptom': 'wrong_path', 'rel': rel is not None},
                       'shortest path %s->%s rel=%s returned %s; BFS distance is %s' % (a_, z_, rel, path, d))
        w.stats.inc('probe.q_shortest.%s' % ('rel' if rel else 'norel'))
        return set(), 'ok'

    if op == 'q_hops':
        a_, z_, hops = s['a'], s['z'], s['hops']
        if a_ == z_:
            raise SkipStep()
        exists = (g, a_) in m.nodes and (g, z_) in m.nodes
        if len(m.gnodes(g)) > 8:
            raise SkipStep()
        for b in ('shared', 'disjoint'):
            cut = s.get('cut')
            if cut is None:
                out = w.real_call(b, lambda bb: pg(bb).get_nodes_on_path_with_hops(node_a=a_, node_z=z_, hops=list(hops)))
            else:
                out = w.real_call(b, lambda bb: pg(bb).get_nodes_on_path_with_hops(node_a=a_, node_z=z_,
                                                                                    hops=list(hops), cut_off=cut))
            if not exists:
                if out != ('exc', QE):
                    w.flag('C06', 'q_hops', {'store': b, 'symptom': 'missing_node_outcome'},
                           'path-with-hops with a missing end node: got %s' % (out,))
                continue
            A = adj(m, g)
            good = [p for p in simple_paths(A, a_, z_) if all(h in p for h in hops) and induced_acyclic(A, p) and
                    (cut is None or len(p) - 1 <= cut)]
            best = min((len(p) for p in good), default=None)
            if out[0] == 'exc':
                w.flag('C06', 'q_hops', {'store': b, 'symptom': 'raised', 'exc': out[1]},
                       'path with hops %s->%s via %s raised %s' % (a_, z_, hops, out[1]))
                continue
            path = out[1]
            if best is None:
                if path != []:
                    w.flag('C06', 'q_hops', {'store': b, 'symptom': 'path_where_none'},
                           'no loop-free path %s->%s through %s exists but %s was returned' % (a_, z_, hops, path))
            elif path not in good or len(path) != best:
                w.flag('C06', 'q_hops', {'store': b, 'symptom': 'wrong_path'},
                       'path with hops %s->%s via %s (depth limit %s) returned %s; shortest admissible length is %s '
                       '(e.g. %s)' % (a_, z_, hops, cut, path, best, [p for p in good if len(p) == best][:1]))
            if best is not None:
                w.stats.inc('probe.q_hops.path_exists')
        return set(), 'ok'
    raise SkipStep()


def _retag(w, oracle):
    """query results are C06's business: re-label what three_way flagged for this step"""
    for v in w.pending:
        if v.prop == 'C05' and v.oracle in ('outcome_3way', 'value_3way', oracle):
            v.prop = 'C06'
            v.oracle = oracle
            v.signature['oracle'] = oracle
