"""
C10 as a stateful operation of W2: validate() accepts exactly when a copy of
the constraint tables PINNED HERE allows the topology; a successful validation
records the inferred site on single-site services; connecting refuses at once
what the service type cannot support.
"""
from .kernel import SkipStep, canon
from .struct import Struct, state_diff, graph_state
from .w2_ops import op, top_services

NO_LIMIT = 0
MIRROR = ['mirror_port', 'mirror_vlan', 'mirror_direction']
# type: (min_interfaces, num_interfaces, num_sites, num_instances, required props, forbidden props, required iface types)
SERVICE_CONSTRAINTS = {
    'P4': (1, 0, 1, 0, [], MIRROR, []),
    'OVS': (1, 0, 1, 0, [], MIRROR, []),
    'VLAN': (1, 0, 1, 0, [], MIRROR + ['controller_url'], []),
    'MPLS': (1, 0, 1, 0, [], MIRROR + ['controller_url'], []),
    'L2Path': (1, 2, 2, 0, [], MIRROR + ['controller_url'], []),
    'L2STS': (2, 0, 2, 0, [], MIRROR + ['controller_url', 'ero'], []),
    'L2PTP': (2, 2, 2, 0, [], MIRROR + ['controller_url'], ['DedicatedPort', 'FacilityPort', 'SubInterface']),
    'L2Multisite': (1, 0, 0, 0, [], MIRROR + ['controller_url'], []),
    'L2Bridge': (1, 0, 1, 0, [], MIRROR + ['controller_url'], []),
    'FABNetv4': (1, 0, 1, 0, [], MIRROR + ['controller_url'], []),
    'FABNetv6': (1, 0, 1, 0, [], MIRROR + ['controller_url'], []),
    'PortMirror': (1, 1, 1, 0, ['mirror_port', 'mirror_direction', 'site'], ['controller_url'], []),
    'L3VPN': (1, 0, 0, 0, [], MIRROR + ['controller_url'], []),
    'FABNetv4Ext': (1, 0, 1, 0, [], MIRROR + ['controller_url'], []),
    'FABNetv6Ext': (1, 0, 1, 0, [], MIRROR + ['controller_url'], []),
}
NODE_CONSTRAINTS = {   # type: (required, forbidden)
    'Server': (['site'], []), 'VM': (['site'], []), 'Container': (['site'], []),
    'Switch': ([], ['image_type', 'image_ref']), 'NAS': ([], ['image_type', 'image_ref']),
    'Facility': ([], ['image_type', 'image_ref', 'management_ip']),
}
PROP_OF = {'site': 'Site', 'image_ref': 'ImageRef', 'image_type': 'ImageRef', 'management_ip': 'MgmtIp',
           'mirror_port': 'MirrorPort', 'mirror_vlan': 'MirrorVlan', 'mirror_direction': 'MirrorDirection',
           'controller_url': 'ControllerURL', 'ero': 'ERO'}


PINNED_NODE_TABLE = {
    'Server': (['site'], []), 'VM': (['site'], []), 'Container': (['site'], []),
    'Switch': ([], ['attached_components_info', 'image_type', 'image_ref']),
    'NAS': ([], ['attached_components_info', 'image_type', 'image_ref']),
    'Facility': ([], ['attached_components_info', 'image_type', 'image_ref', 'management_ip']),
}


def check_tables(w, when):
    """the library's constraint tables still equal the copies pinned here (a silent edit - or erosion at run time - shows)"""
    from fim.slivers.network_node import NodeSliver
    from fim.slivers.network_service import NetworkServiceSliver
    got_n = {str(k): (list(v.required_properties), list(v.forbidden_properties)) for k, v in NodeSliver.NodeConstraints.items()}
    want_n = {k: (list(a), list(b)) for k, (a, b) in PINNED_NODE_TABLE.items()}
    if canon(got_n) != canon(want_n):
        bad = [k for k in sorted(set(got_n) | set(want_n)) if canon(got_n.get(k)) != canon(want_n.get(k))]
        w.flag('C10', 'constraint_table', {'table': 'node', 'when': when, 'type': bad[0]},
               'node constraint table differs from the pinned copy for %s: library %s, pinned %s' %
               (bad, [got_n.get(k) for k in bad], [want_n.get(k) for k in bad]))
    got_s = {}
    for k, v in NetworkServiceSliver.ServiceConstraints.items():
        got_s[str(k)] = (v.min_interfaces, v.num_interfaces, v.num_sites, v.num_instances, list(v.required_properties),
                         list(v.forbidden_properties), [str(t) for t in v.required_interface_types])
    want_s = {k: tuple(v) for k, v in SERVICE_CONSTRAINTS.items()}
    if canon(got_s) != canon({k: list(v) for k, v in want_s.items()}):
        bad = [k for k in sorted(set(got_s) | set(want_s)) if canon(got_s.get(k)) != canon(list(want_s[k]) if k in want_s else None)]
        w.flag('C10', 'constraint_table', {'table': 'service', 'when': when, 'type': bad[0]},
               'service constraint table differs from the pinned copy for %s: library %s' % (bad, [got_s.get(k) for k in bad]))


def truthy(props, name):
    v = props.get(PROP_OF[name])
    return v is not None and v != ''      # (the text 'None' is a value like any other on the in-memory backends)


def validate_expected(st, flavour):
    """-> (accept, reason, {service id: site to record})"""
    record = {}
    for n in st.of_class('NetworkNode'):
        t = st.typ(n)
        if t == 'Facility':
            continue        # facilities are not listed by topology.nodes and are not validated as nodes
        if t not in NODE_CONSTRAINTS:
            return False, 'node type %s has no constraints' % t, record
        req, forb = NODE_CONSTRAINTS[t]
        for p in req:
            if not truthy(st.n[n], p):
                return False, 'node %s of type %s lacks %s' % (st.name(n), t, p), record
        for p in forb:
            if truthy(st.n[n], p):
                return False, 'node %s of type %s has forbidden %s' % (st.name(n), t, p), record
    for s in st.of_class('NetworkService'):
        t = st.typ(s)
        if t not in SERVICE_CONSTRAINTS:
            return False, 'service type %s has no constraints' % t, record
        mn, mx, nsites, ninst, req, forb, rit = SERVICE_CONSTRAINTS[t]
        node_ifs = []
        for cp in st.cps_of_service(s):
            if st.typ(cp) == 'ServicePort':
                peers = st.peers(cp)
                if len(peers) != 1:
                    return False, 'service port %s has %d peers' % (st.name(cp), len(peers)), record
                node_ifs.append(peers[0])
            else:
                node_ifs.append(cp)
        if flavour == 'experiment':
            if mn != NO_LIMIT and len(node_ifs) < mn:
                return False, 'service %s (%s) has %d interfaces, needs at least %d' % (st.name(s), t, len(node_ifs), mn), record
            if mx != NO_LIMIT and len(node_ifs) > mx:
                return False, 'service %s (%s) has %d interfaces, at most %d' % (st.name(s), t, len(node_ifs), mx), record
        props = dict(st.n[s])
        if nsites != NO_LIMIT:
            sites = set()
            for i in node_ifs:
                owner = st.owner_node_of_cp(i)
                if owner is None:
                    return False, 'interface %s has no owner node' % st.name(i), record
                sites.add(st.n[owner].get('Site'))
            if len(sites) > nsites:
                return False, 'service %s (%s) spans %d sites' % (st.name(s), t, len(sites)), record
            declared = props.get('Site')
            if len(sites) == 1:
                x = list(sites)[0]
                if not declared:
                    if not x:
                        return False, 'service %s: the only site spanned is undefined' % st.name(s), record
                    record[s] = x
                    props['Site'] = x
                elif declared != x:
                    return False, 'service %s declares site %s, interfaces are in %s' % (st.name(s), declared, x), record
            elif len(sites) > 1 and declared:
                return False, 'service %s is multi-site but declares site %s' % (st.name(s), declared), record
        for p in req:
            if not truthy(props, p):
                return False, 'service %s (%s) lacks required %s' % (st.name(s), t, p), record
        for p in forb:
            if truthy(props, p):
                return False, 'service %s (%s) has forbidden %s' % (st.name(s), t, p), record
        if rit:
            for i in node_ifs:
                if st.typ(i) not in rit:
                    return False, 'service %s (%s) uses interface type %s' % (st.name(s), t, st.typ(i)), record
    return True, '', record


def infer_all(st):
    """service id -> site a validation pass may record on it (single site spanned, none declared)"""
    out = {}
    for s in st.of_class('NetworkService'):
        row = SERVICE_CONSTRAINTS.get(st.typ(s))
        if row is None or row[2] == NO_LIMIT or st.n[s].get('Site'):
            continue
        sites = set()
        ok = True
        for cp in st.cps_of_service(s):
            i = cp
            if st.typ(cp) == 'ServicePort':
                peers = st.peers(cp)
                if len(peers) != 1:
                    ok = False
                    break
                i = peers[0]
            o = st.owner_node_of_cp(i)
            if o is None:
                ok = False
                break
            sites.add(st.n[o].get('Site'))
        if ok and len(sites) == 1 and list(sites)[0]:
            out[s] = list(sites)[0]
    return out


@op('validate', 'read')
def g_validate(w, rng, st):
    return {}


@op('validate', 'read')
def x_validate(w, s, st, info):
    info['may_write'] = True
    if st.dups:
        raise SkipStep()
    # name-keyed views drop equally named elements (recorded findings): the reference then judges more elements
    # than validate() sees; not exercised
    names = [st.name(x) for x in st.of_class('NetworkService')]
    nn = [st.name(x) for x in st.of_class('NetworkNode')]
    if len(set(names)) != len(names) or len(set(nn)) != len(nn):
        raise SkipStep()
    accept, reason, record = validate_expected(st, w.cfg['flavour'])
    check_tables(w, 'before')
    if w.pending:
        return
    try:
        w.topo.validate()
        got, exc = True, None
    except Exception as e:
        got, exc = False, e
    check_tables(w, 'after')
    post = graph_state(w.imp, w.gid())
    pst = Struct(post)
    types = sorted(set(st.typ(x) for x in st.of_class('NetworkService')))
    if got and not accept:
        w.flag('C10', 'validate_reject', {'why': reason.split(' ')[0] + ':' + reason.split('(')[-1].split(')')[0][:12]},
               'validate() accepted a topology the pinned constraint tables forbid: %s' % reason)
    elif not got and accept:
        w.flag('C10', 'validate_accept', {'exc': type(exc).__name__},
               'validate() rejected (%s: %s) a topology the pinned constraint tables allow; service types present %s' %
               (type(exc).__name__, str(exc)[:160], types))
    if got and accept:
        for sid, site in record.items():
            if post['nodes'].get(sid, [{}])[0].get('Site') != site:
                w.flag('C10', 'validate_records_site', {'type': st.typ(sid)},
                       'after a successful validate() service %s (%s) has site %r, inferred %r' %
                       (st.name(sid), st.typ(sid), post['nodes'].get(sid, [{}])[0].get('Site'), site))
        # cardinality rules 11/12 of the published rules hold for a validated slice (C07)
        for x in pst.of_class('NetworkService'):
            n = len(pst.cps_of_service(x))
            if pst.typ(x) == 'L2PTP' and n != 2 and w.cfg['flavour'] == 'experiment':
                w.flag('C07', 'rule_11', {'type': 'L2PTP'}, 'validated L2PTP service %s connects %d interfaces' % (pst.name(x), n))
            if pst.typ(x) == 'PortMirror' and n != 1 and w.cfg['flavour'] == 'experiment':
                w.flag('C07', 'rule_12', {}, 'validated PortMirror service %s connects %d interfaces' % (pst.name(x), n))
    # the only thing validate() may write is the inferred site of services
    inferable = infer_all(st)
    exp = {'nodes': {k: [dict(v[0])] for k, v in st.state['nodes'].items()}, 'edges': st.state['edges']}
    for k, lst in post['nodes'].items():
        if k in exp['nodes'] and st.cls(k) == 'NetworkService':
            new_site = lst[0].get('Site')
            if new_site != exp['nodes'][k][0].get('Site') and inferable.get(k) == new_site:
                exp['nodes'][k][0]['Site'] = new_site
                exp['nodes'][k][0].setdefault('StitchNode', lst[0].get('StitchNode'))
    if canon(exp) != canon(post):
        # recorded finding: writing the site goes through set_property, which always writes StitchNode=false
        only_stitch = True
        for k in set(exp['nodes']) | set(post['nodes']):
            a, b = exp['nodes'].get(k, [{}])[0], post['nodes'].get(k, [{}])[0]
            for pk in set(a) | set(b):
                if a.get(pk) != b.get(pk) and not (pk == 'StitchNode' and a.get(pk) == 'true' and b.get(pk) == 'false'
                                                   and st.cls(k) == 'NetworkService'):
                    only_stitch = False
        if canon(exp['edges']) != canon(post['edges']):
            only_stitch = False
        w.flag('C10', 'validate_side_effect', {'accepted': got, 'symptom': 'stitch_node_reset' if only_stitch else 'other'},
               'validate() changed the model beyond recording inferred sites: %s' % state_diff(post, exp, 'after', 'allowed'))
    w.stats.inc('probe.validate.%s' % ('accept' if accept else 'reject'))
    if not accept:
        w.stats.inc('probe.validate_reject_reason.%s' % reason.split(' ')[0])
    info['validated'] = got


def check_guardrail(w, s, info, post_st):
    """connecting refuses at once: an L2PTP service must never end up with a shared port"""
    for x in post_st.of_class('NetworkService'):
        if post_st.typ(x) == 'L2PTP':
            for sp in post_st.cps_of_service(x):
                for p in post_st.peers(sp):
                    if post_st.typ(p) == 'SharedPort':
                        w.flag('C10', 'guardrail', {'op': s['op']},
                               '%s connected shared port %s to L2PTP service %s' % (s['op'], post_st.name(p), post_st.name(x)))
