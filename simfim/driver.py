"""
Check driver: `./check <property> [--tier quick|thorough] [--replay file] [--runs N]`.

The launcher starts each worker as a fresh interpreter with a pinned
PYTHONHASHSEED derived from (VERIF_SEED, batch index); a run's identity is
(run seed, hash seed).  Exit codes: 0 held, 1 violation (VIOLATION line),
2 harness error.
"""
import faulthandler
import importlib
import json
import os
import subprocess
import sys
import tempfile
import time

from . import kernel
from .kernel import derive, run_world, minimise, Stats, HarnessError

PY = sys.executable
CHECK = os.path.join(kernel.VERIF_DIR, 'check')
DEFAULT_SEED = 20261001

# property -> world, fixed run counts per tier, batches (each batch = one hash seed), level, rule
REGISTRY = {}


def register(prop, **kw):
    REGISTRY[prop] = kw


def load_registry():
    if REGISTRY:
        return
    from . import registry  # noqa: F401  (fills REGISTRY)


def world_class(spec):
    mod, cls = spec.split(':')
    return getattr(importlib.import_module('simfim.' + mod), cls)


def repo_path():
    return os.environ.get('FIM_REPO', '/repo')


def setup_repo_import():
    import logging
    logging.disable(logging.CRITICAL)      # library log output is not part of any oracle
    rp = repo_path()
    if rp not in sys.path:
        sys.path.insert(0, rp)
    import fim
    where = os.path.dirname(os.path.abspath(fim.__file__))
    if not where.startswith(os.path.abspath(rp)):
        raise HarnessError('fim imported from %s, expected under %s' % (where, rp))


# ------------------------------------------------------------------------------------------- worker
def worker_main(arg):
    faulthandler.enable()
    job = json.loads(arg)
    faulthandler.dump_traceback_later(job.get('timeout', 600), exit=True)
    setup_repo_import()
    load_registry()
    prop, tier = job['prop'], job['tier']
    reg = REGISTRY[prop]
    wspec = job.get('world') or reg['world']
    wcls = world_class(wspec)
    findings = kernel.load_known_findings()
    hashseed = os.environ.get('PYTHONHASHSEED', '?')
    out = {'runs': 0, 'steps': 0, 'stats': {}, 'digests': [], 'state_hashes': [], 'violations': [],
           'samples': [], 'errors': [], 'foreign': 0, 'nontrivial_runs': 0}
    stats = Stats()
    state_hashes = set()
    seen_sigs = set()
    t0 = time.time()
    seeds_done = []
    for idx in range(job['start'], job['start'] + job['count']):
        seed = derive(job['verif_seed'], wspec, idx) % (1 << 53)
        try:
            res = run_world(wcls, seed, prop, tier)
        except Exception:
            out['errors'].append({'seed': seed, 'error': kernel.fmt_exc()[-3000:]})
            if len(out['errors']) > 3:
                break
            continue
        out['runs'] += 1
        seeds_done.append(seed)
        out['steps'] += len(res.steps)
        stats.merge(res.stats)
        if len(state_hashes) < 300000:
            state_hashes.update(res.state_hashes)
        if res.nontrivial:
            out['nontrivial_runs'] += 1
            out['digests'].append(res.digest[:16])
        if len(out['samples']) < 2 and res.nontrivial and idx % 7 == job['start'] % 7:
            out['samples'].append({'seed': seed, 'pythonhashseed': hashseed, 'steps': res.steps[:12],
                                   'n_steps': len(res.steps)})
        v = res.violation
        if v is None:
            continue
        vj = v.to_json()
        if v.prop != prop:
            out['foreign'] += 1
            stats.inc('foreign_violation.%s.%s' % (v.prop, v.oracle))
            continue
        known = kernel.match_known(vj, findings)
        sk = kernel.sig_key(v.signature)
        rec = {'seed': seed, 'violation': vj, 'known': known['id'] if known else None, 'replay': None,
               'pythonhashseed': hashseed}
        if known:
            stats.inc('known_finding.%s' % known['id'])
            if sk in seen_sigs:
                continue
            seen_sigs.add(sk)
            out['violations'].append(rec)
            continue
        if sk in seen_sigs:
            stats.inc('violation_repeats')
            continue
        seen_sigs.add(sk)
        # minimise the recorded step list, then write the replay file
        try:
            steps, used = minimise(wcls, seed, prop, tier, res.config, res.steps, v.signature,
                                   budget_runs=job.get('min_runs', 300), budget_s=job.get('min_s', 60),
                                   simplify=getattr(wcls, 'simplify_step', None))
            rr = run_world(wcls, seed, prop, tier, cfg=res.config, steps=steps, keep_log=True)
            if rr.violation is None or kernel.sig_key(rr.violation.signature) != sk:
                steps, used = res.steps, 0
                rr = run_world(wcls, seed, prop, tier, cfg=res.config, steps=steps, keep_log=True)
            if rr.violation is None:
                raise HarnessError('violation does not reproduce from its own recorded steps: %s' % vj)
            vj2 = rr.violation.to_json()
            path = kernel.write_replay(prop, wspec, seed, hashseed, res.config, rr.steps, vj2, rr.digest,
                                       {'steps': len(res.steps), 'replays_used': used}, tier,
                                       prelude=seeds_done[:-1], original_steps=res.steps)
            rec['replay'] = path
            rec['violation'] = vj2
        except Exception:
            out['errors'].append({'seed': seed, 'error': 'while minimising: ' + kernel.fmt_exc()[-3000:]})
        out['violations'].append(rec)
    out['stats'] = dict(stats.c)
    out['state_hashes'] = sorted(state_hashes)
    out['wall'] = time.time() - t0
    with open(job['out'], 'w') as f:
        json.dump(out, f)
    return 0


# ------------------------------------------------------------------------------------------- replay
def replay_main(prop, path, quiet=False):
    with open(path) as f:
        doc = json.load(f)
    want_hs = str(doc['pythonhashseed'])
    if os.environ.get('PYTHONHASHSEED') != want_hs:
        env = dict(os.environ)
        env['PYTHONHASHSEED'] = want_hs
        r = subprocess.run([PY, '-B', CHECK, doc['property'], '--replay', path], env=env)
        return r.returncode
    setup_repo_import()
    load_registry()
    reg = REGISTRY[doc['property']]
    wcls = world_class(doc['world'] if ':' in str(doc.get('world')) else reg['world'])
    want_sig = kernel.sig_key(doc['violation']['signature'])

    def attempt(steps):
        r = run_world(wcls, doc['seed'], doc['property'], doc.get('tier', 'quick'), cfg=doc['config'],
                      steps=steps, keep_log=True)
        return r
    res = attempt(doc['steps'])
    v = res.violation
    variant = 'minimised'
    if (v is None or kernel.sig_key(v.signature) != want_sig) and doc.get('original_steps') and \
            doc['original_steps'] != doc['steps']:
        # minimisation ran inside the worker that found the violation; if the library keeps state between calls
        # (a cache one step poisons for a later one) dropping steps there proves nothing for a fresh process
        res = attempt(doc['original_steps'])
        v = res.violation
        variant = 'original steps'
    if (v is None or kernel.sig_key(v.signature) != want_sig) and doc.get('prelude_seeds'):
        print('replay: clean in a fresh process; replaying the %d runs that preceded it in its worker' %
              len(doc['prelude_seeds']))
        for sd in doc['prelude_seeds']:
            try:
                run_world(wcls, sd, doc['property'], doc.get('tier', 'quick'))
            except Exception:
                pass
        res = attempt(doc.get('original_steps') or doc['steps'])
        v = res.violation
        variant = 'original steps after the preceding runs of its worker (state leaks between runs inside the library)'
    if variant != 'minimised' and v is not None:
        print('replay: reproduces with the %s' % variant)
    if v is None:
        print('replay: no violation (does not reproduce on this tree)')
        return 0
    same_sig = kernel.sig_key(v.signature) == kernel.sig_key(doc['violation']['signature'])
    same_digest = res.digest == doc['digest'] or variant != 'minimised'
    print('replay: %s %s signature_match=%s digest_match=%s' % (v.prop, v.oracle, same_sig, same_digest))
    print('detail: %s' % v.detail[:1500])
    print('REPLAY-RESULT ' + json.dumps({'signature_match': same_sig, 'digest_match': same_digest}))
    print('VIOLATION property=%s replay=%s' % (doc['property'], path))
    return 1


# ------------------------------------------------------------------------------------------- main
def check_main(prop, tier, verif_seed, runs_override=None, workers=None):
    load_registry()
    if prop not in REGISTRY:
        print('unknown property %s' % prop)
        return 2
    reg = REGISTRY[prop]
    t0 = time.time()
    parts = reg.get('parts') or [{'world': reg['world'], 'quick': reg['quick'], 'thorough': reg['thorough']}]
    workers = workers or int(os.environ.get('VERIF_WORKERS', '0')) or min(16, os.cpu_count() or 4)
    tmpdir = tempfile.mkdtemp(prefix='simfim-out-')
    jobs = []
    bidx = 0
    for part in parts:
        runs = runs_override or part[tier]
        nbatch = part.get('batches', {}).get(tier) or (32 if tier == 'quick' else 128)
        nbatch = max(1, min(nbatch, runs))
        per = (runs + nbatch - 1) // nbatch
        start = 0
        for _ in range(nbatch):
            cnt = min(per, runs - start)
            if cnt <= 0:
                break
            jobs.append({'prop': prop, 'tier': tier, 'verif_seed': verif_seed, 'batch': bidx, 'start': start,
                         'count': cnt, 'out': os.path.join(tmpdir, 'b%d.json' % bidx), 'world': part['world'],
                         'timeout': reg.get('worker_timeout', {}).get(tier, 900 if tier == 'quick' else 7200)})
            start += cnt
            bidx += 1
    pending = list(jobs)
    running = []
    results = []
    harness_errors = []
    hashseeds = set()
    try:
        while pending or running:
            while pending and len(running) < workers:
                job = pending.pop(0)
                env = dict(os.environ)
                hs = derive(verif_seed, 'hashseed', job['batch']) % 4294967296
                env['PYTHONHASHSEED'] = str(hs)
                hashseeds.add(hs)
                env['PYTHONDONTWRITEBYTECODE'] = '1'
                p = subprocess.Popen([PY, '-B', CHECK, '--worker', json.dumps(job)], env=env,
                                     stdout=subprocess.PIPE, stderr=subprocess.STDOUT)
                running.append((job, p, time.time()))
            still = []
            for job, p, ts in running:
                rc = p.poll()
                if rc is None:
                    if time.time() - ts > job['timeout'] + 30:
                        p.kill()
                        harness_errors.append('worker batch %d exceeded its wall-clock guard' % job['batch'])
                    else:
                        still.append((job, p, ts))
                    continue
                outtxt = p.stdout.read().decode(errors='replace')
                if rc != 0 or not os.path.exists(job['out']):
                    harness_errors.append('worker batch %d exit %s: %s' % (job['batch'], rc, outtxt[-2000:]))
                    continue
                with open(job['out']) as f:
                    results.append(json.load(f))
                os.unlink(job['out'])
            running = still
            if running:
                time.sleep(0.05)
    finally:
        for job, p, ts in running:
            try:
                p.kill()
            except Exception:
                pass
        try:
            for fn in os.listdir(tmpdir):
                os.unlink(os.path.join(tmpdir, fn))
            os.rmdir(tmpdir)
        except Exception:
            pass

    stats = Stats()
    digests, states = set(), set()
    n_runs = n_steps = foreign = nontrivial = 0
    samples, violations = [], []
    for r in results:
        n_runs += r['runs']
        n_steps += r['steps']
        foreign += r['foreign']
        nontrivial += r['nontrivial_runs']
        stats.merge(r['stats'])
        digests.update(r['digests'])
        states.update(r['state_hashes'])
        if len(samples) < 3:
            samples.extend(r['samples'][:1])
        violations.extend(r['violations'])
        for e in r['errors']:
            harness_errors.append('run seed %s: %s' % (e['seed'], e['error']))

    # ---- classify violations
    exit_code = 0
    known_seen = {}
    new_by_sig = {}
    for v in sorted(violations, key=lambda x: x['seed']):
        if v['known']:
            known_seen.setdefault(v['known'], v)
        else:
            new_by_sig.setdefault(kernel.sig_key(v['violation']['signature']), v)
    findings = {f['id']: f for f in kernel.load_known_findings()}
    for fid in sorted(findings):
        # every listed finding of this property is announced on every run; whether this run's sample reached it is
        # said too (a listed finding never hides a different violation: matching is by signature)
        if findings[fid]['property'] != prop or findings[fid].get('status') != 'open':
            continue
        print('KNOWN-FINDING: property=%s %s [%s]' % (prop, findings[fid]['description'],
                                                      'reproduced in this run' if fid in known_seen else
                                                      'listed; not reached by this run\'s sample'))
    confirmed = 0
    for sk in sorted(new_by_sig)[:5]:
        v = new_by_sig[sk]
        if not v['replay']:
            harness_errors.append('violation without a replay file: %s' % json.dumps(v['violation'])[:1500])
            continue
        env = dict(os.environ)
        env['PYTHONHASHSEED'] = str(v['pythonhashseed'])
        rp = subprocess.run([PY, '-B', CHECK, prop, '--replay', v['replay']], env=env, stdout=subprocess.PIPE,
                            stderr=subprocess.STDOUT, timeout=600)
        txt = rp.stdout.decode(errors='replace')
        ok = rp.returncode == 1 and '"signature_match": true' in txt and '"digest_match": true' in txt
        if ok:
            confirmed += 1
            print('violation: %s' % v['violation']['detail'][:1200])
            print('signature: %s' % json.dumps(v['violation']['signature'], sort_keys=True))
            print('VIOLATION property=%s replay=%s' % (prop, v['replay']))
            exit_code = 1
        else:
            harness_errors.append('replay of %s did not reproduce exactly in a fresh process: %s' %
                                  (v['replay'], txt[-1500:]))
    wall = time.time() - t0
    if harness_errors:
        for e in harness_errors[:5]:
            print('HARNESS-ERROR: %s' % e)
        if exit_code == 0:
            exit_code = 2

    # ---- evidence
    faults = {k: v for k, v in stats.c.items() if k.startswith('faults.')}
    cov = {
        'evaluations': n_runs,
        'distinct_nontrivial': len(digests),
        'rule': reg['rule'],
        'samples': samples or [{'note': 'no sample recorded'}],
        'steps_executed': n_steps,
        'runs_per_hour': int(n_runs / wall * 3600) if wall > 0 else 0,
        'seeds_per_hour': int(n_runs / wall * 3600) if wall > 0 else 0,
        'simulated_steps': n_steps,
        'distinct_abstract_states': len(states),
        'pythonhashseeds_distinct': len(hashseeds),
        'runs_ended_by_foreign_violation': foreign,
        'nontrivial_runs': nontrivial,
        'counters': stats.tree(),
        'faults_fired_total': sum(faults.values()),
        'real_components': reg.get('real', REAL_DEFAULT),
        'stubbed_components': reg.get('stubs', STUBS_DEFAULT),
        'known_findings_observed': sorted(known_seen),
        'exhaustive': False,
    }
    if reg.get('pinned_rules'):
        cov['pinned_model_rules'] = reg['pinned_rules']
    ev = {'property_id': prop, 'tier': tier, 'seed': verif_seed, 'level': reg['level'], 'coverage': cov,
          'assumptions': reg.get('assumptions', []), 'wall_s': round(wall, 2), 'violations': confirmed}
    if exit_code != 2 or n_runs > 0:
        os.makedirs(kernel.EVIDENCE_DIR, exist_ok=True)
        tmp = os.path.join(kernel.EVIDENCE_DIR, '.%s.tmp' % prop)
        with open(tmp, 'w') as f:
            json.dump(ev, f, indent=1, sort_keys=True)
        os.replace(tmp, os.path.join(kernel.EVIDENCE_DIR, '%s.json' % prop))
    print('%s tier=%s seed=%d runs=%d steps=%d nontrivial_distinct=%d states=%d foreign=%d wall=%.1fs exit=%d' %
          (prop, tier, verif_seed, n_runs, n_steps, len(digests), len(states), foreign, wall, exit_code))
    return exit_code


REAL_DEFAULT = ['fim (all of it, from /repo working tree)', 'networkx', 'networkx_query', 'lxml', 'json',
                'real file system under a per-run scratch directory']
STUBS_DEFAULT = ['uuid.uuid4 (seeded)', 'store lock (SimLock: observes, never refuses what threading.Lock allows)']


def main(argv):
    if argv and argv[0] == '--worker':
        return worker_main(argv[1])
    if argv and argv[0] == '--digests':
        from . import selftest
        return selftest.digests_main(argv[1])
    if argv and argv[0] == 'selftest':
        from . import selftest
        return selftest.main(argv[1:])
    if not argv:
        print(__doc__)
        return 2
    prop = argv[0]
    tier = os.environ.get('VERIF_TIER', 'quick')
    replay = None
    runs = None
    i = 1
    while i < len(argv):
        if argv[i] == '--tier':
            tier = argv[i + 1]
            i += 2
        elif argv[i] == '--replay':
            replay = argv[i + 1]
            i += 2
        elif argv[i] == '--runs':
            runs = int(argv[i + 1])
            i += 2
        else:
            print('unknown argument %s' % argv[i])
            return 2
    if replay:
        return replay_main(prop, replay)
    if prop == 'selftest':
        from . import selftest
        return selftest.main(argv[1:])
    seed = int(os.environ.get('VERIF_SEED', DEFAULT_SEED))
    return check_main(prop, tier, seed, runs_override=runs)
